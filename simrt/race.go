package verifsim

// R8: a happens-before race detector over the package-level variables of the
// instrumented package.
//
// Under a cooperative scheduler one goroutine runs at a time, so a data race
// that never changes a result is invisible (an unlocked read of a map that
// another goroutine writes under a lock works fine here and is fatal in the
// real runtime).  The instrumenter therefore announces, before every
// statement, the package-level variables the statement reads and writes
// (Acc), and every synchronisation operation it rewrites reports the edge it
// creates (acquire / release).  Vector clocks decide whether two accesses to
// the same variable by different tasks, at least one of them a write, are
// ordered.  Every edge the Go memory model guarantees for the rewritten
// operations is modelled (more edges = fewer reports), and the detector is
// armed only for trees in which EVERY use of sync, sync/atomic and channels is
// one of the modelled forms - so a report is a real race under the Go memory
// model, not an artefact.

import (
	"fmt"
	"reflect"
)

type vclock []int32

func (v vclock) get(i int) int32 {
	if i < len(v) {
		return v[i]
	}
	return 0
}

func (v *vclock) set(i int, x int32) {
	for len(*v) <= i {
		*v = append(*v, 0)
	}
	(*v)[i] = x
}

func (v *vclock) join(o vclock) {
	for i, x := range o {
		if x > v.get(i) {
			v.set(i, x)
		}
	}
}

func (v vclock) copy() vclock { return append(vclock(nil), v...) }

type raceAccess struct {
	task  int
	clock int32
	site  int
}

type raceVar struct {
	w  raceAccess   // last write (task -1: none)
	rs []raceAccess // reads since the last write, one per task
}

// RaceState is the detector's state for one concurrent run.
type RaceState struct {
	task  map[int]*vclock
	obj   map[interface{}]*vclock // locks, onces, wait groups, atomics, pools: the clock released into them
	vars  map[int]*raceVar
	Names []string // variable names by id (set by the harness from the generated table)
	// Report is called once, for the first race found.
	Report   func(msg string)
	SiteName func(site int) string
	reported bool
	Checks   int64
}

// Race is the installed detector, nil when none is armed.
var Race *RaceState

func NewRaceState() *RaceState {
	return &RaceState{task: map[int]*vclock{}, obj: map[interface{}]*vclock{}, vars: map[int]*raceVar{}}
}

func (r *RaceState) clock(t int) *vclock {
	c := r.task[t]
	if c == nil {
		c = &vclock{}
		c.set(t, 1)
		r.task[t] = c
	}
	return c
}

func curTask() int {
	if h := H; h != nil && h.TaskID != nil {
		return h.TaskID()
	}
	return 0
}

// Fork: the task `child` is started by the running task.
func (r *RaceState) Fork(child int) {
	p := curTask()
	pc := r.clock(p)
	cc := pc.copy()
	cc.set(child, 1)
	r.task[child] = &cc
	pc.set(p, pc.get(p)+1)
}

func objKey(k interface{}) interface{} {
	v := reflect.ValueOf(k)
	switch v.Kind() {
	case reflect.Ptr, reflect.Chan, reflect.UnsafePointer:
		return v.Pointer()
	}
	return k
}

// acquire: everything released into k so far happens before what the running task does next.
func acquire(k interface{}) {
	r := Race
	if r == nil {
		return
	}
	if oc := r.obj[objKey(k)]; oc != nil {
		r.clock(curTask()).join(*oc)
	}
}

// release: what the running task did so far happens before every later acquire of k.
func release(k interface{}) {
	r := Race
	if r == nil {
		return
	}
	t := curTask()
	c := r.clock(t)
	key := objKey(k)
	oc := r.obj[key]
	if oc == nil {
		oc = &vclock{}
		r.obj[key] = oc
	}
	oc.join(*c)
	c.set(t, c.get(t)+1)
}

// snapshot / joinClock carry a clock with a message (channel element, pool object).
func snapshot() vclock {
	r := Race
	if r == nil {
		return nil
	}
	t := curTask()
	c := r.clock(t)
	s := c.copy()
	c.set(t, c.get(t)+1)
	return s
}

func joinClock(s vclock) {
	r := Race
	if r == nil || s == nil {
		return
	}
	r.clock(curTask()).join(s)
}

// Acc announces that the statement that follows reads (w == 0) or writes (w == 1) the
// package-level variables with the given ids.  Generated call: verifsim.Acc(site, "rw..", ids...).
func Acc(site int, mode string, ids ...int) {
	r := Race
	if r == nil || r.reported {
		return
	}
	t := curTask()
	c := r.clock(t)
	for i, id := range ids {
		r.Checks++
		v := r.vars[id]
		if v == nil {
			v = &raceVar{w: raceAccess{task: -1}}
			r.vars[id] = v
		}
		write := i < len(mode) && mode[i] == 'w'
		// the last write must be ordered before this access
		if v.w.task >= 0 && v.w.task != t && v.w.clock > c.get(v.w.task) {
			r.report(id, v.w, raceAccess{t, c.get(t), site}, "written", map[bool]string{false: "read", true: "written"}[write])
			return
		}
		if write {
			for _, rd := range v.rs {
				if rd.task != t && rd.clock > c.get(rd.task) {
					r.report(id, rd, raceAccess{t, c.get(t), site}, "read", "written")
					return
				}
			}
			v.w = raceAccess{t, c.get(t), site}
			v.rs = v.rs[:0]
			continue
		}
		found := false
		for j := range v.rs {
			if v.rs[j].task == t {
				v.rs[j] = raceAccess{t, c.get(t), site}
				found = true
			}
		}
		if !found {
			v.rs = append(v.rs, raceAccess{t, c.get(t), site})
		}
	}
}

func (r *RaceState) report(id int, first, second raceAccess, how1, how2 string) {
	r.reported = true
	name := fmt.Sprintf("#%d", id)
	if id >= 0 && id < len(r.Names) {
		name = r.Names[id]
	}
	sn := func(i int) string {
		if r.SiteName != nil {
			return r.SiteName(i)
		}
		return fmt.Sprintf("site %d", i)
	}
	if r.Report != nil {
		r.Report(fmt.Sprintf("package-level variable %s is %s by task %d (%s) and %s by task %d (%s) with no synchronisation ordering the two accesses (no lock, Once, WaitGroup, channel or atomic operation between them): a data race under the Go memory model", name, how1, first.task, sn(first.site), how2, second.task, sn(second.site)))
	}
}

// ---- hooks for the rewritten synchronisation operations that have no other entry point

// SimUnlock replaces X.Unlock() / X.RUnlock().
func SimUnlock(unlock func(), key interface{}) {
	release(key)
	unlock()
}

// AtomicPtr wraps the address argument of a sync/atomic function call; AtomicObj wraps the
// receiver of a method call on a sync/atomic type or a sync.Map.  Every such operation both
// acquires and releases (sync/atomic operations are sequentially consistent).
func AtomicPtr[T any](p *T) *T {
	if Race != nil {
		acquire(p)
		release(p)
	}
	return p
}

func AtomicObj[T any](p *T) *T { return AtomicPtr(p) }
