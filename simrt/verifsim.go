// Package verifsim is the simulator runtime that the instrumented scratch copy
// of mxj calls into.  It is copied by /verif/bin/instrument into
// <scratch>/mxj/verifsim on every check; it is never part of /repo.
//
// Every entry point tests H first and falls through to the native behaviour
// when no simulation is installed, so an instrumented copy with H == nil is
// behaviourally the original package.
package verifsim

import (
	crand "crypto/rand"
	"fmt"
	"io"
	"io/fs"
	"iter"
	mrand "math/rand"
	"os"
	"reflect"
	"runtime"
	"sort"
	"sync"
	"time"
)

// Hooks is installed by the harness.  A nil field means "native behaviour".
type Hooks struct {
	// MapOrder is asked once per `range` over a map with n>1 keys.  It returns a
	// permutation of 0..n-1 that is applied to the keys in ascending order, or
	// nil for ascending order itself.  site is the R1 site id.
	MapOrder func(site, n int) []int
	// Yield is called at every generated scheduling point.
	Yield func(site int)
	// Sleep / After replace time.Sleep / time.After.
	Sleep func(d time.Duration)
	// Disk replaces os.Open / os.Create / os.Stat.
	Open   func(name string) (*File, error)
	Create func(name string) (*File, error)
	Stat   func(name string) (fs.FileInfo, error)
	// OpenFile replaces os.OpenFile; Remove / Rename replace os.Remove / os.Rename.
	OpenFile func(name string, flag int, perm fs.FileMode) (*File, error)
	Remove   func(name string) error
	Rename   func(oldName, newName string) error
	// TempName returns a fresh file name for os.CreateTemp(dir, pattern).
	TempName func(dir, pattern string) string
	// Now replaces time.Now (and time.Since); Rand supplies the bits for math/rand and
	// crypto/rand replacements.  os.Getpid is a constant under simulation.
	Now  func() time.Time
	Rand func() uint64
	// RealPath serves the "real file" disk mode (used when the edited tree names *os.File
	// explicitly, so that verifsim.File cannot stand in for it): it maps a file name to a
	// path under the simulator's private directory, or returns an injected error.
	RealPath func(op, name string) (string, error)
	// Go is told about `go` statements found in the instrumented package (R6).
	Go func(f func())
	// Blocked is called by a task that cannot take a lock (or waits for a
	// running sync.Once): the scheduler must let somebody else run.
	Blocked func()
	// Progress is told that a task got past a blocking point (lock taken, value
	// received ...): the scheduler's deadlock detection starts counting afresh.
	Progress func()
	// TaskID identifies the running task for the race detector (R8).
	TaskID func() int
}

// H is the installed simulation, nil when none is running.
var H *Hooks

// ---------------------------------------------------------------- R1

// MapIter replaces `range m` for every map-typed range expression.
func MapIter[M ~map[K]V, K comparable, V any](site int, m M) iter.Seq2[K, V] {
	return func(yield func(K, V) bool) {
		h := H
		if h == nil || h.MapOrder == nil {
			for k, v := range m {
				if !yield(k, v) {
					return
				}
			}
			return
		}
		keys := make([]K, 0, len(m))
		for k := range m {
			keys = append(keys, k)
		}
		sortKeys(keys)
		var perm []int
		if len(keys) > 1 {
			perm = h.MapOrder(site, len(keys))
		}
		for i := range keys {
			k := keys[i]
			if perm != nil {
				k = keys[perm[i]]
			}
			v, ok := m[k]
			if !ok {
				continue // deleted before it was reached: legally skipped
			}
			if !yield(k, v) {
				return
			}
		}
	}
}

func sortKeys[K comparable](keys []K) {
	if ks, ok := any(keys).([]string); ok {
		sort.Strings(ks)
		return
	}
	sort.SliceStable(keys, func(i, j int) bool {
		return fmt.Sprint(keys[i]) < fmt.Sprint(keys[j])
	})
}

// MapKeys replaces reflect.Value.MapKeys().
func MapKeys(site int, v reflect.Value) []reflect.Value {
	keys := v.MapKeys()
	h := H
	if h == nil || h.MapOrder == nil {
		return keys
	}
	sort.SliceStable(keys, func(i, j int) bool {
		return fmt.Sprint(keys[i].Interface()) < fmt.Sprint(keys[j].Interface())
	})
	if len(keys) > 1 {
		if perm := h.MapOrder(site, len(keys)); perm != nil {
			out := make([]reflect.Value, len(keys))
			for i := range keys {
				out[i] = keys[perm[i]]
			}
			return out
		}
	}
	return keys
}

// ---------------------------------------------------------------- R2

// Yield is a generated scheduling point.
func Yield(site int) {
	if h := H; h != nil && h.Yield != nil {
		h.Yield(site)
	}
}

// ---------------------------------------------------------------- R3

func Sleep(d time.Duration) {
	if h := H; h != nil && h.Sleep != nil {
		h.Sleep(d)
		return
	}
	time.Sleep(d)
}

func After(d time.Duration) <-chan time.Time {
	if h := H; h != nil && h.Sleep != nil {
		h.Sleep(d)
		c := make(chan time.Time, 1)
		c <- time.Time{}
		return c
	}
	return time.After(d)
}

// ---------------------------------------------------------------- R4

// File stands in for *os.File.  With Real set every method delegates to it;
// otherwise the function fields supplied by the simulated disk are used.
type File struct {
	Real    *os.File
	Nm      string
	ReadFn  func(p []byte) (int, error)
	WriteFn func(p []byte) (int, error)
	CloseFn func() error
	SyncFn  func() error
	StatFn  func() (fs.FileInfo, error)
}

func Open(name string) (*File, error) {
	if h := H; h != nil && h.Open != nil {
		return h.Open(name)
	}
	f, err := os.Open(name)
	if err != nil {
		return nil, err
	}
	return &File{Real: f, Nm: name}, nil
}

func Create(name string) (*File, error) {
	if h := H; h != nil && h.Create != nil {
		return h.Create(name)
	}
	f, err := os.Create(name)
	if err != nil {
		return nil, err
	}
	return &File{Real: f, Nm: name}, nil
}

func Stat(name string) (fs.FileInfo, error) {
	if h := H; h != nil && h.Stat != nil {
		return h.Stat(name)
	}
	return os.Stat(name)
}

func (f *File) Name() string { return f.Nm }

func (f *File) Read(p []byte) (int, error) {
	if f == nil {
		return 0, os.ErrInvalid
	}
	if f.Real != nil {
		return f.Real.Read(p)
	}
	if f.ReadFn == nil {
		return 0, os.ErrInvalid
	}
	return f.ReadFn(p)
}

func (f *File) Write(p []byte) (int, error) {
	if f == nil {
		return 0, os.ErrInvalid
	}
	if f.Real != nil {
		return f.Real.Write(p)
	}
	if f.WriteFn == nil {
		return 0, os.ErrInvalid
	}
	return f.WriteFn(p)
}

func (f *File) WriteString(s string) (int, error) { return f.Write([]byte(s)) }

func (f *File) Close() error {
	if f == nil {
		return os.ErrInvalid
	}
	if f.Real != nil {
		return f.Real.Close()
	}
	if f.CloseFn != nil {
		return f.CloseFn()
	}
	return nil
}

// Chmod is accepted and ignored by simulated files.
func (f *File) Chmod(mode fs.FileMode) error {
	if f != nil && f.Real != nil {
		return f.Real.Chmod(mode)
	}
	return nil
}

func (f *File) Sync() error {
	if f == nil {
		return os.ErrInvalid
	}
	if f.Real != nil {
		return f.Real.Sync()
	}
	if f.SyncFn != nil {
		return f.SyncFn()
	}
	return nil
}

func (f *File) Stat() (fs.FileInfo, error) {
	if f == nil {
		return nil, os.ErrInvalid
	}
	if f.Real != nil {
		return f.Real.Stat()
	}
	if f.StatFn != nil {
		return f.StatFn()
	}
	return nil, os.ErrInvalid
}

var _ io.ReadWriteCloser = (*File)(nil)

// ---------------------------------------------------------------- R6

// Go replaces a `go f()` statement in the instrumented package.  Under the
// simulator the new goroutine becomes one more cooperative task: it is a real
// goroutine, but it runs only when the scheduler hands it the turn.
func Go(f func()) {
	if h := H; h != nil && h.Go != nil {
		h.Go(f)
		return
	}
	go f()
}

// coop reports whether goroutines, locks, wait groups and channels of the
// instrumented package are under the cooperative scheduler.
func coop() *Hooks {
	if h := H; h != nil && h.Blocked != nil {
		return h
	}
	return nil
}

func progress(h *Hooks) {
	if h.Progress != nil {
		h.Progress()
	}
}

// ---- sync.WaitGroup: Add / Done / Wait are rewritten to these; under the
// simulator the counter lives in a side table and Wait polls it, handing the
// turn to the scheduler while it is positive.

var wgs = map[*sync.WaitGroup]int{}

func WGAdd(w *sync.WaitGroup, n int) {
	h := coop()
	if h == nil {
		w.Add(n)
		return
	}
	if n < 0 {
		release(w) // Done happens before the return of the Wait it unblocks
	}
	wgs[w] += n
	if wgs[w] < 0 {
		panic("sync: negative WaitGroup counter")
	}
}

func WGDone(w *sync.WaitGroup) { WGAdd(w, -1) }

func WGWait(w *sync.WaitGroup) {
	h := coop()
	if h == nil {
		w.Wait()
		return
	}
	for wgs[w] > 0 {
		h.Blocked()
	}
	progress(h)
	acquire(w)
}

// ---- channels made by the instrumented package (make(chan T, n) is wrapped
// in RegChan) are modelled in a side table under the simulator: the real
// channel is not used, so that a send and a receive that both poll can meet.
// Channels that come from elsewhere are polled for real.

type offer struct {
	v     interface{}
	taken bool
	vc    vclock // the sender's clock at the send
	rvc   vclock // the receiver's clock at the receive (an unbuffered receive happens before the send completes)
}

type qitem struct {
	v  interface{}
	vc vclock
}

type chanState struct {
	keep    interface{} // keeps the channel alive so that its address is not reused within a case
	cap     int
	q       []qitem
	offers  []*offer
	closed  bool
	closeVC vclock
	recvVCs []vclock // clock of the k-th receive: it happens before the (k+cap)-th send completes
	nsent   int
}

var chans = map[uintptr]*chanState{}

// RegChan wraps make(chan ...) in the instrumented package.
func RegChan[C any](c C) C {
	if coop() != nil {
		v := reflect.ValueOf(c)
		if v.Kind() == reflect.Chan && !v.IsNil() {
			chans[v.Pointer()] = &chanState{keep: c, cap: v.Cap()}
		}
	}
	return c
}

func chanOf(c interface{}) *chanState {
	if len(chans) == 0 {
		return nil
	}
	v := reflect.ValueOf(c)
	if v.Kind() != reflect.Chan || v.IsNil() {
		return nil
	}
	return chans[v.Pointer()]
}

// Send replaces the statement `ch <- v`.
func Send[T any](ch chan<- T, v T) {
	h := coop()
	if h == nil {
		ch <- v
		return
	}
	st := chanOf(ch)
	if st == nil {
		if ch == nil {
			for {
				h.Blocked() // a send on a nil channel blocks forever
			}
		}
		for {
			release(ch) // a channel the package did not make: ordered both ways with every other operation on it
			select {
			case ch <- v:
				progress(h)
				acquire(ch)
				return
			default:
				h.Blocked()
			}
		}
	}
	if st.closed {
		panic("send on closed channel")
	}
	if st.cap > 0 {
		for len(st.q) >= st.cap {
			h.Blocked()
			if st.closed {
				panic("send on closed channel")
			}
		}
		if k := st.nsent - st.cap; k >= 0 && k < len(st.recvVCs) {
			joinClock(st.recvVCs[k])
		}
		st.nsent++
		st.q = append(st.q, qitem{v, snapshot()})
		progress(h)
		return
	}
	o := &offer{v: v, vc: snapshot()}
	st.offers = append(st.offers, o)
	for !o.taken {
		h.Blocked()
		if st.closed && !o.taken {
			panic("send on closed channel")
		}
	}
	joinClock(o.rvc)
	progress(h)
}

// Recv replaces the expression `<-ch`, Recv2 the form `v, ok := <-ch`.
func Recv[T any](ch <-chan T) T {
	v, _ := Recv2(ch)
	return v
}

func Recv2[T any](ch <-chan T) (T, bool) {
	h := coop()
	if h == nil {
		v, ok := <-ch
		return v, ok
	}
	st := chanOf(ch)
	var zero T
	if st == nil {
		if ch == nil {
			for {
				h.Blocked()
			}
		}
		for {
			release(ch)
			select {
			case v, ok := <-ch:
				progress(h)
				acquire(ch)
				return v, ok
			default:
				h.Blocked()
			}
		}
	}
	for {
		if len(st.q) > 0 {
			it := st.q[0]
			st.q = st.q[1:]
			progress(h)
			joinClock(it.vc)
			if Race != nil {
				st.recvVCs = append(st.recvVCs, snapshot())
			}
			if it.v == nil {
				return zero, true
			}
			return it.v.(T), true
		}
		if len(st.offers) > 0 {
			o := st.offers[0]
			st.offers = st.offers[1:]
			joinClock(o.vc)
			o.rvc = snapshot()
			o.taken = true
			progress(h)
			if o.v == nil {
				return zero, true
			}
			return o.v.(T), true
		}
		if st.closed {
			progress(h)
			joinClock(st.closeVC)
			return zero, false
		}
		h.Blocked()
	}
}

// RangeChan replaces `range ch`.
func RangeChan[T any](ch <-chan T) iter.Seq[T] {
	return func(yield func(T) bool) {
		for {
			v, ok := Recv2(ch)
			if !ok || !yield(v) {
				return
			}
		}
	}
}

// Close replaces close(ch).
func Close[C any](c C) {
	if coop() != nil {
		if st := chanOf(c); st != nil {
			if st.closed {
				panic("close of closed channel")
			}
			st.closed = true
			st.closeVC = snapshot()
			return
		}
	}
	reflect.ValueOf(c).Close()
}

// NumCPU / GOMAXPROCS / Gosched replace their runtime namesakes: a worker
// count derived from the machine must not differ between a run and its replay.
func NumCPU() int {
	if H != nil {
		return 4
	}
	return runtime.NumCPU()
}

func GOMAXPROCS(n int) int {
	if H != nil {
		return 4
	}
	return runtime.GOMAXPROCS(n)
}

func Gosched() {
	if h := H; h != nil && h.Yield != nil {
		h.Yield(-3)
		return
	}
	runtime.Gosched()
}

// SimLock replaces X.Lock() / X.RLock(): under the simulator a contended lock
// hands control to the scheduler instead of blocking the goroutine for real.
func SimLock(lock func(), try func() bool, key ...interface{}) {
	h := H
	if h == nil || h.Blocked == nil {
		lock()
		return
	}
	for !try() {
		h.Blocked()
	}
	progress(h)
	if len(key) > 0 {
		acquire(key[0])
	}
}

type onceState struct{ running, done bool }

var onces = map[*sync.Once]*onceState{}

// ResetSync forgets what the simulator knows about sync.Once values; called
// whenever the package state is reset to its pristine copy.
func ResetSync() {
	onces = map[*sync.Once]*onceState{}
	pools = map[*sync.Pool][]interface{}{}
	wgs = map[*sync.WaitGroup]int{}
	chans = map[uintptr]*chanState{}
}

var pools = map[*sync.Pool][]interface{}{}

// PoolGet / PoolPut replace sync.Pool.Get / Put: the real pool is emptied by
// the garbage collector at unpredictable moments, which would make the number
// of scheduling points taken (New is instrumented code) differ from run to run.
// Under the simulator a pool is a plain LIFO free list - objects ARE reused, so
// a buffer handed back while still referenced is still observable.
func PoolGet(p *sync.Pool) interface{} {
	h := H
	if h == nil || h.Blocked == nil {
		return p.Get()
	}
	acquire(p) // (coarser than the language guarantees - per pool, not per object: more order, fewer reports)
	if l := pools[p]; len(l) > 0 {
		v := l[len(l)-1]
		pools[p] = l[:len(l)-1]
		return v
	}
	if p.New != nil {
		return p.New()
	}
	return nil
}

func PoolPut(p *sync.Pool, v interface{}) {
	h := H
	if h == nil || h.Blocked == nil {
		p.Put(v)
		return
	}
	release(p)
	pools[p] = append(pools[p], v)
}

// SimOnce replaces once.Do(f): a second caller arriving while f is still
// running (f may contain scheduling points) waits cooperatively.
func SimOnce(o *sync.Once, f func()) {
	h := H
	if h == nil || h.Blocked == nil {
		o.Do(f)
		return
	}
	st := onces[o]
	if st == nil {
		st = &onceState{}
		onces[o] = st
	}
	for st.running {
		h.Blocked()
	}
	if st.done {
		o.Do(f) // returns at once
		acquire(o)
		return
	}
	st.running = true
	defer func() {
		st.running, st.done = false, true
		release(o) // the completion of f happens before the return of every Do
	}()
	o.Do(f)
}

func OpenFile(name string, flag int, perm fs.FileMode) (*File, error) {
	if h := H; h != nil && h.OpenFile != nil {
		return h.OpenFile(name, flag, perm)
	}
	f, err := os.OpenFile(name, flag, perm)
	if err != nil {
		return nil, err
	}
	return &File{Real: f, Nm: name}, nil
}

func Lstat(name string) (fs.FileInfo, error) {
	if h := H; h != nil && h.Stat != nil {
		return h.Stat(name)
	}
	return os.Lstat(name)
}

func ReadFile(name string) ([]byte, error) {
	if h := H; h != nil && h.Open != nil {
		f, err := h.Open(name)
		if err != nil {
			return nil, err
		}
		defer f.Close()
		return io.ReadAll(f)
	}
	return os.ReadFile(name)
}

func WriteFile(name string, data []byte, perm fs.FileMode) error {
	if h := H; h != nil && h.OpenFile != nil {
		f, err := h.OpenFile(name, os.O_WRONLY|os.O_CREATE|os.O_TRUNC, perm)
		if err != nil {
			return err
		}
		_, err = f.Write(data)
		if e := f.Close(); err == nil {
			err = e
		}
		return err
	}
	return os.WriteFile(name, data, perm)
}

func Remove(name string) error {
	if h := H; h != nil && h.Remove != nil {
		return h.Remove(name)
	}
	return os.Remove(name)
}

func Rename(o, n string) error {
	if h := H; h != nil && h.Rename != nil {
		return h.Rename(o, n)
	}
	return os.Rename(o, n)
}

// ---------------------------------------------------------------- R4, real-file mode
//
// Same signatures as the os functions they replace, so the instrumented package
// keeps handling *os.File values.

func realPath(op, name string) (string, error, bool) {
	if h := H; h != nil && h.RealPath != nil {
		p, err := h.RealPath(op, name)
		return p, err, true
	}
	return name, nil, false
}

func OpenReal(name string) (*os.File, error) {
	p, err, _ := realPath("open", name)
	if err != nil {
		return nil, err
	}
	return os.Open(p)
}

func CreateReal(name string) (*os.File, error) {
	p, err, _ := realPath("create", name)
	if err != nil {
		return nil, err
	}
	return os.Create(p)
}

func OpenFileReal(name string, flag int, perm fs.FileMode) (*os.File, error) {
	op := "open"
	if flag&(os.O_WRONLY|os.O_RDWR|os.O_CREATE|os.O_TRUNC|os.O_APPEND) != 0 {
		op = "create"
	}
	p, err, _ := realPath(op, name)
	if err != nil {
		return nil, err
	}
	return os.OpenFile(p, flag, perm)
}

func ReadFileReal(name string) ([]byte, error) {
	p, err, _ := realPath("open", name)
	if err != nil {
		return nil, err
	}
	return os.ReadFile(p)
}

func WriteFileReal(name string, data []byte, perm fs.FileMode) error {
	p, err, _ := realPath("create", name)
	if err != nil {
		return err
	}
	return os.WriteFile(p, data, perm)
}

func RemoveReal(name string) error {
	p, err, sim := realPath("remove", name)
	if err != nil {
		return err
	}
	if sim && p != name {
		return nil // the simulated disk has already dropped it
	}
	return os.Remove(p)
}

func RenameReal(o, n string) error {
	if h := H; h != nil && h.Rename != nil {
		return h.Rename(o, n)
	}
	return os.Rename(o, n)
}

func CreateTemp(dir, pattern string) (*File, error) {
	if h := H; h != nil && h.OpenFile != nil && h.TempName != nil {
		return h.OpenFile(h.TempName(dir, pattern), os.O_RDWR|os.O_CREATE|os.O_EXCL, 0o600)
	}
	f, err := os.CreateTemp(dir, pattern)
	if err != nil {
		return nil, err
	}
	return &File{Real: f, Nm: f.Name()}, nil
}

// CreateTempReal: the temporary file is a real file in the simulator's directory; a later
// RenameReal(f.Name(), target) hands its content to the simulated disk.
func CreateTempReal(dir, pattern string) (*os.File, error) {
	if h := H; h != nil && h.RealPath != nil {
		p, err := h.RealPath("tempdir", dir)
		if err != nil {
			return nil, err
		}
		return os.CreateTemp(p, pattern)
	}
	return os.CreateTemp(dir, pattern)
}

// ---------------------------------------------------------------- wall clock, pid, global PRNGs

func Now() time.Time {
	if h := H; h != nil && h.Now != nil {
		return h.Now()
	}
	return time.Now()
}

func Since(t time.Time) time.Duration { return Now().Sub(t) }

func Getpid() int {
	if h := H; h != nil && h.Now != nil {
		return 4242
	}
	return os.Getpid()
}

func bits() (uint64, bool) {
	if h := H; h != nil && h.Rand != nil {
		return h.Rand(), true
	}
	return 0, false
}

func RandInt() int {
	if b, ok := bits(); ok {
		return int(b >> 1)
	}
	return mrand.Int()
}

func RandIntn(n int) int {
	if b, ok := bits(); ok && n > 0 {
		return int(b % uint64(n))
	}
	return mrand.Intn(n)
}

func RandInt31() int32 {
	if b, ok := bits(); ok {
		return int32(b >> 33)
	}
	return mrand.Int31()
}

func RandInt31n(n int32) int32 {
	if b, ok := bits(); ok && n > 0 {
		return int32(b % uint64(n))
	}
	return mrand.Int31n(n)
}

func RandInt63() int64 {
	if b, ok := bits(); ok {
		return int64(b >> 1)
	}
	return mrand.Int63()
}

func RandInt63n(n int64) int64 {
	if b, ok := bits(); ok && n > 0 {
		return int64(b % uint64(n))
	}
	return mrand.Int63n(n)
}

func RandUint32() uint32 {
	if b, ok := bits(); ok {
		return uint32(b >> 32)
	}
	return mrand.Uint32()
}

func RandUint64() uint64 {
	if b, ok := bits(); ok {
		return b
	}
	return mrand.Uint64()
}

func RandFloat64() float64 {
	if b, ok := bits(); ok {
		return float64(b>>11) / (1 << 53)
	}
	return mrand.Float64()
}

func RandFloat32() float32 {
	if b, ok := bits(); ok {
		return float32(b>>40) / (1 << 24)
	}
	return mrand.Float32()
}

func RandPerm(n int) []int {
	if _, ok := bits(); ok {
		p := make([]int, n)
		for i := range p {
			p[i] = i
		}
		RandShuffle(n, func(i, j int) { p[i], p[j] = p[j], p[i] })
		return p
	}
	return mrand.Perm(n)
}

func RandShuffle(n int, swap func(i, j int)) {
	if _, ok := bits(); ok {
		for i := n - 1; i > 0; i-- {
			swap(i, RandIntn(i+1))
		}
		return
	}
	mrand.Shuffle(n, swap)
}

func RandSeed(seed int64) {
	if _, ok := bits(); ok {
		return
	}
	mrand.Seed(seed)
}

func CryptoRandRead(p []byte) (int, error) {
	if _, ok := bits(); ok {
		for i := range p {
			b, _ := bits()
			p[i] = byte(b)
		}
		return len(p), nil
	}
	return crand.Read(p)
}
