// harness is the simulation driver: coordinator, worker and replayer in one
// binary (DESIGN.md §2).  It is built on every check against a freshly
// instrumented scratch copy of /repo's working tree.
package main

import (
	"bufio"
	"bytes"
	"encoding/json"
	"flag"
	"fmt"
	"os"
	"os/exec"
	"path/filepath"
	"runtime"
	"sort"
	"strconv"
	"strings"
	"sync"
	"syscall"
	"time"
)

// Property is one claimed property: a case function run once per tape.
type Property struct {
	ID    string
	Level string // exploration | fault_enumeration
	// Cases returns the number of seeded cases for a tier.
	Cases func(tier string) int
	// Run executes one simulated case.  It returns nil when every armed oracle
	// clause held.
	Run func(c *Ctx) *Violation
	// Init runs once per process before the first case (after the pristine
	// package state has been captured).
	Init        func()
	Notes       func() map[string]string
	Rule        string
	Assumptions []string
	Components  map[string][]string
}

var registry = map[string]*Property{}

func register(p *Property) { registry[p.ID] = p }

type Violation struct {
	Clause string `json:"clause"`
	Msg    string `json:"message"`
}

func (v *Violation) String() string { return v.Clause + ": " + v.Msg }

// CaseResult is what one executed tape produced.
type CaseResult struct {
	V      *Violation
	EvHash Hash
	Tape   []uint32
}

// WorkerOut is the JSON a worker process prints as its last line.
type WorkerOut struct {
	Worker     int                 `json:"worker"`
	Cases      int                 `json:"cases"`
	Counters   map[string]int64    `json:"counters"`
	Sets       map[string]dsetJSON `json:"sets"`
	Samples    []interface{}       `json:"samples"`
	Known      map[string]KnownHit `json:"known"`
	Violation  *ViolationReport    `json:"violation,omitempty"`
	NonDet     string              `json:"nondeterminism,omitempty"`
	DetChecked int                 `json:"det_checked"`
	VirtualNs  int64               `json:"virtual_ns"`
	HarnessErr string              `json:"harness_error,omitempty"`
}

type KnownHit struct {
	Count int    `json:"count"`
	First string `json:"first"`
}

type ViolationReport struct {
	Property  string                 `json:"property"`
	Tier      string                 `json:"tier"`
	Seed      uint64                 `json:"seed"`
	Run       int                    `json:"run"`
	Tape      []uint32               `json:"tape"`
	OrigTape  int                    `json:"original_tape_len"`
	ShrinkTry int                    `json:"shrink_candidates"`
	Rendered  map[string]interface{} `json:"rendered"`
	Violation Violation              `json:"violation"`
	EvHash    string                 `json:"event_log_hash"`
	Events    []string               `json:"events,omitempty"`
}

func envSeed() uint64 {
	if s := os.Getenv("VERIF_SEED"); s != "" {
		if v, err := strconv.ParseUint(s, 10, 64); err == nil {
			return v
		}
		if v, err := strconv.ParseInt(s, 10, 64); err == nil {
			return uint64(v)
		}
	}
	return 1
}

func main() {
	if len(os.Args) < 2 {
		fmt.Fprintln(os.Stderr, "usage: harness run|worker|replay ...")
		os.Exit(2)
	}
	switch os.Args[1] {
	case "run":
		os.Exit(coordinator(os.Args[2:]))
	case "worker":
		os.Exit(worker(os.Args[2:]))
	case "replay":
		os.Exit(replay(os.Args[2:]))
	case "selftest-determinism":
		os.Exit(detDump(os.Args[2:]))
	default:
		fmt.Fprintln(os.Stderr, "unknown mode", os.Args[1])
		os.Exit(2)
	}
}

// ---------------------------------------------------------------- one case

// runTape executes one tape of one property in this process.
func runTape(p *Property, tier string, t *Tape, render bool, agg *Ctx) (res CaseResult, c *Ctx) {
	c = newCtx(p.ID, tier, t, render)
	if agg != nil {
		c.known = agg.known
	}
	resetPackageState()
	installHooks(c)
	defer uninstallHooks()
	defer c.killGoroutines() // (before the hooks go: unwinding runs deferred calls of the package)
	func() {
		defer func() {
			if r := recover(); r != nil {
				if _, ok := r.(stepLimit); ok {
					res.V = &Violation{Clause: p.ID + ".nontermination", Msg: fmt.Sprintf("step bound exceeded (%d yields) outside a guarded call", c.opSteps)}
					return
				}
				// a panic that escaped a guarded call is a harness defect
				panic(fmt.Sprintf("HARNESS PANIC in %s: %v\n%s", p.ID, r, stack()))
			}
		}()
		res.V = p.Run(c)
	}()
	res.EvHash = c.ev
	res.Tape = t.Record()
	return res, c
}

func stack() string {
	b := make([]byte, 1<<14)
	return string(b[:runtime.Stack(b, false)])
}

// ---------------------------------------------------------------- worker

func worker(args []string) int {
	fs := flag.NewFlagSet("worker", flag.ExitOnError)
	prop := fs.String("prop", "", "")
	tier := fs.String("tier", "quick", "")
	seed := fs.Uint64("seed", 1, "")
	from := fs.Int("from", 0, "")
	stride := fs.Int("stride", 1, "")
	n := fs.Int("n", 0, "")
	known := fs.String("known", "", "")
	fs.Parse(args)
	p := registry[*prop]
	if p == nil {
		fmt.Fprintln(os.Stderr, "unknown property", *prop)
		return 2
	}
	// a runaway allocation must end this worker, not the machine
	var lim syscall.Rlimit
	if syscall.Getrlimit(syscall.RLIMIT_AS, &lim) == nil {
		lim.Cur = 8 << 30
		if lim.Max != 0 && lim.Max < lim.Cur {
			lim.Cur = lim.Max
		}
		syscall.Setrlimit(syscall.RLIMIT_AS, &lim)
	}
	capturePristine()
	loadKnown(*known)
	initHookLocking()
	if p.Init != nil {
		p.Init()
	}
	agg := newCtx(p.ID, *tier, nil, false)
	agg.known = map[string]*KnownHit{}
	out := WorkerOut{Worker: *from, Counters: map[string]int64{}, Sets: map[string]dsetJSON{}, Known: map[string]KnownHit{}}
	w := bufio.NewWriter(os.Stdout)
	defer w.Flush()

	for i := *from; i < *n; i += *stride {
		fmt.Fprintf(os.Stderr, "BEGIN %d\n", i)
		res, c := runTape(p, *tier, NewTape(*seed, uint64(i)), false, agg)
		out.Cases++
		agg.merge(c)
		if len(out.Samples) < 2 && c.sample != nil {
			out.Samples = append(out.Samples, c.sample)
		}
		if res.V != nil {
			out.Violation = minimise(p, *tier, *seed, i, res, agg)
			break
		}
		// determinism self-check on a 1% sample: same tape, same process
		if (i%100 == 7%100 || i < *stride) && !lockHooks {
			res2, _ := runTape(p, *tier, ReplayTape(res.Tape), false, agg)
			out.DetChecked++
			if res2.EvHash != res.EvHash || (res2.V != nil) != (res.V != nil) {
				out.NonDet = fmt.Sprintf("run %d: event-log hash %x vs %x on re-execution", i, res.EvHash, res2.EvHash)
				break
			}
		}
	}
	out.Counters = agg.C
	for k, s := range agg.sets {
		out.Sets[k] = s.toJSON()
	}
	for k, h := range agg.known {
		out.Known[k] = *h
	}
	out.VirtualNs = agg.VirtualNs
	b, _ := json.Marshal(out)
	w.Write(b)
	w.WriteByte('\n')
	return 0
}

// minimise shrinks the failing tape in-process and renders it.
func minimise(p *Property, tier string, seed uint64, run int, res CaseResult, agg *Ctx) *ViolationReport {
	clause := res.V.Clause
	deadline := time.Now().Add(30 * time.Second)
	still := func(rec []uint32) bool {
		if time.Now().After(deadline) {
			return false
		}
		r, _ := runTape(p, tier, ReplayTape(rec), false, nil)
		return r.V != nil && r.V.Clause == clause
	}
	min, tried := Shrink(res.Tape, still, 3000)
	r, c := runTape(p, tier, ReplayTape(min), true, nil)
	if r.V == nil || r.V.Clause != clause {
		// should not happen; fall back to the unshrunk tape
		min = res.Tape
		r, c = runTape(p, tier, ReplayTape(min), true, nil)
	}
	rep := &ViolationReport{Property: p.ID, Tier: tier, Seed: seed, Run: run, Tape: r.Tape, OrigTape: len(res.Tape), ShrinkTry: tried,
		Rendered: c.R, EvHash: fmt.Sprintf("%016x", uint64(r.EvHash)), Events: c.evList}
	if r.V != nil {
		rep.Violation = *r.V
	} else {
		rep.Violation = *res.V
	}
	return rep
}

// ---------------------------------------------------------------- coordinator

func coordinator(args []string) int {
	fs := flag.NewFlagSet("run", flag.ExitOnError)
	prop := fs.String("prop", "", "")
	tier := fs.String("tier", "quick", "")
	evid := fs.String("evidence", "", "evidence file to write")
	rdir := fs.String("replays", "", "directory for replay files")
	known := fs.String("known", "", "known_findings.json")
	isum := fs.String("instr", "", "instrumentation summary JSON")
	workers := fs.Int("workers", 0, "")
	wallcap := fs.Duration("wallcap", 0, "")
	fs.Parse(args)
	if t := os.Getenv("VERIF_TIER"); t == "quick" || t == "thorough" {
		*tier = t
	}
	p := registry[*prop]
	if p == nil {
		fmt.Fprintln(os.Stderr, "unknown property", *prop)
		return 2
	}
	loadKnown(*known)
	if *isum != "" {
		os.Setenv("VERIF_INSTR", *isum)
	} else {
		*isum = os.Getenv("VERIF_INSTR")
	}
	seed := envSeed()
	n := p.Cases(*tier)
	if os.Getenv("VERIF_DISKMODE") == "real" {
		// real files cost a system call per byte read: fewer cases in the fall-back disk mode
		switch p.ID {
		case "C19":
			n /= 12
		case "C15":
			n /= 4
		case "C16":
			n /= 2
		}
		fmt.Println("verif: real-file disk mode (the tree names *os.File explicitly): read schedules, EIO and reported write errors are not injected into files")
	}
	if s := os.Getenv("VERIF_CASES"); s != "" {
		if v, err := strconv.Atoi(s); err == nil {
			n = v
		}
	}
	W := *workers
	if W <= 0 {
		W = runtime.NumCPU()
		if W > 16 {
			W = 16
		}
	}
	if W > n {
		W = n
	}
	if *wallcap == 0 {
		*wallcap = 20 * time.Minute
		if *tier == "thorough" {
			*wallcap = 3 * time.Hour
		}
	}
	start := time.Now()
	fmt.Printf("verif: property=%s tier=%s VERIF_SEED=%d cases=%d workers=%d\n", p.ID, *tier, seed, n, W)

	self, _ := os.Executable()
	outs := make([]WorkerOut, W)
	errs := make([]string, W)
	lastBegin := make([]int, W)
	var wg sync.WaitGroup
	var mu sync.Mutex
	var cmds []*exec.Cmd
	for w := 0; w < W; w++ {
		cmd := exec.Command(self, "worker", "-prop", p.ID, "-tier", *tier, "-seed", strconv.FormatUint(seed, 10),
			"-from", strconv.Itoa(w), "-stride", strconv.Itoa(W), "-n", strconv.Itoa(n), "-known", *known)
		cmd.Env = append(os.Environ(), "GOMAXPROCS=1", "GOTRACEBACK=single", "VERIF_INSTR="+*isum)
		var so, se bytes.Buffer
		cmd.Stdout = &so
		cmd.Stderr = &se
		if err := cmd.Start(); err != nil {
			fmt.Fprintln(os.Stderr, "cannot start worker:", err)
			return 2
		}
		mu.Lock()
		cmds = append(cmds, cmd)
		mu.Unlock()
		wg.Add(1)
		go func(w int, cmd *exec.Cmd, so, se *bytes.Buffer) {
			defer wg.Done()
			err := cmd.Wait()
			lastBegin[w] = -1
			for _, ln := range strings.Split(se.String(), "\n") {
				if strings.HasPrefix(ln, "BEGIN ") {
					lastBegin[w], _ = strconv.Atoi(strings.TrimPrefix(ln, "BEGIN "))
				}
			}
			if err != nil {
				nb := nonBegin(se.String())
				errs[w] = fmt.Sprintf("worker %d: %v\n%s\n...\n%s", w, err, clip(nb, 1500), tail(nb, 2500))
				return
			}
			lines := strings.Split(strings.TrimSpace(so.String()), "\n")
			if jerr := json.Unmarshal([]byte(lines[len(lines)-1]), &outs[w]); jerr != nil {
				errs[w] = fmt.Sprintf("worker %d: bad output: %v", w, jerr)
			}
		}(w, cmd, &so, &se)
	}
	done := make(chan struct{})
	go func() { wg.Wait(); close(done) }()
	select {
	case <-done:
	case <-time.After(*wallcap):
		mu.Lock()
		for _, c := range cmds {
			c.Process.Kill()
		}
		mu.Unlock()
		<-done
		fmt.Fprintf(os.Stderr, "verif: WATCHDOG wall cap %v exceeded\n", *wallcap)
		return 2
	}

	// a worker killed by a Go fatal error is attributed to the case in flight
	var fatalRep *ViolationReport
	for w, e := range errs {
		if e == "" {
			continue
		}
		if strings.Contains(e, "fatal error:") && lastBegin[w] >= 0 {
			t := NewTape(seed, uint64(lastBegin[w]))
			_ = t
			fatalRep = &ViolationReport{Property: p.ID, Tier: *tier, Seed: seed, Run: lastBegin[w],
				Violation: Violation{Clause: p.ID + ".fatal", Msg: "worker died with a Go fatal error while running this case: " + firstFatal(e)},
				Rendered:  map[string]interface{}{"note": "unrecoverable fatal error; replay regenerates the tape from seed and run index"}}
			continue
		}
		fmt.Fprintln(os.Stderr, "verif: HARNESS ERROR:", e)
		return 2
	}

	// merge
	counters := map[string]int64{}
	sets := map[string]*DSet{}
	var samples []interface{}
	knownHits := map[string]KnownHit{}
	var viol *ViolationReport
	cases, det := 0, 0
	var virt int64
	for w := range outs {
		o := &outs[w]
		if o.NonDet != "" {
			fmt.Fprintln(os.Stderr, "verif: NONDETERMINISM", o.NonDet)
			return 2
		}
		cases += o.Cases
		det += o.DetChecked
		virt += o.VirtualNs
		for k, v := range o.Counters {
			counters[k] += v
		}
		for k, l := range o.Sets {
			if sets[k] == nil {
				sets[k] = NewDSet()
			}
			sets[k].Merge(dsetFromJSON(l))
		}
		if len(samples) < 4 {
			samples = append(samples, o.Samples...)
		}
		for k, h := range o.Known {
			kh := knownHits[k]
			if kh.Count == 0 {
				kh.First = h.First
			}
			kh.Count += h.Count
			knownHits[k] = kh
		}
		if o.Violation != nil && (viol == nil || o.Violation.Run < viol.Run) {
			viol = o.Violation
		}
	}
	if fatalRep != nil && (viol == nil || fatalRep.Run < viol.Run) {
		viol = fatalRep
	}
	wall := time.Since(start).Seconds()

	kk := make([]string, 0, len(knownHits))
	for k := range knownHits {
		kk = append(kk, k)
	}
	sort.Strings(kk)
	for _, k := range kk {
		fmt.Printf("KNOWN-FINDING: property=%s %s (hit %d times; first: %s)\n", p.ID, knownLine(k), knownHits[k].Count, knownHits[k].First)
	}

	nviol := 0
	replayPath := ""
	if viol != nil {
		nviol = 1
		os.MkdirAll(*rdir, 0o755)
		replayPath = filepath.Join(*rdir, fmt.Sprintf("%s-%d-%d.json", p.ID, seed, viol.Run))
		os.WriteFile(replayPath, prettyJSON(viol), 0o644)
	}
	writeEvidence(*evid, p, *tier, seed, cases, counters, sets, samples, knownHits, det, virt, wall, nviol, *isum, viol)

	if viol != nil {
		fmt.Printf("violation: %s\n", viol.Violation.String())
		fmt.Println(clip(string(prettyJSON(viol.Rendered)), 6000))
		fmt.Printf("VIOLATION property=%s replay=%s\n", p.ID, replayPath)
		return 1
	}
	fmt.Printf("verif: property=%s held on %d cases (%d evaluations, %d distinct non-trivial) in %.1fs\n", p.ID, cases, counters["evaluations"], dcount(sets["nontrivial"]), wall)
	return 0
}

func prettyJSON(v interface{}) []byte {
	var b bytes.Buffer
	e := json.NewEncoder(&b)
	e.SetEscapeHTML(false)
	e.SetIndent("", " ")
	e.Encode(v)
	return bytes.TrimRight(b.Bytes(), "\n")
}

func nonBegin(s string) string {
	var b strings.Builder
	for _, ln := range strings.Split(s, "\n") {
		if !strings.HasPrefix(ln, "BEGIN ") {
			b.WriteString(ln)
			b.WriteByte('\n')
		}
	}
	return b.String()
}

func tail(s string, n int) string {
	if len(s) > n {
		return s[len(s)-n:]
	}
	return s
}

func firstFatal(s string) string {
	i := strings.Index(s, "fatal error:")
	if i < 0 {
		return ""
	}
	e := s[i:]
	if j := strings.IndexByte(e, '\n'); j > 0 {
		e = e[:j]
	}
	return e
}

// ---------------------------------------------------------------- replay

func replay(args []string) int {
	fs := flag.NewFlagSet("replay", flag.ExitOnError)
	known := fs.String("known", "", "")
	fs.Parse(args)
	if fs.NArg() != 1 {
		fmt.Fprintln(os.Stderr, "usage: harness replay [-known f] <file>")
		return 2
	}
	b, err := os.ReadFile(fs.Arg(0))
	if err != nil {
		fmt.Fprintln(os.Stderr, err)
		return 2
	}
	var rep ViolationReport
	if err := json.Unmarshal(b, &rep); err != nil {
		fmt.Fprintln(os.Stderr, "bad replay file:", err)
		return 2
	}
	p := registry[rep.Property]
	if p == nil {
		fmt.Fprintln(os.Stderr, "unknown property", rep.Property)
		return 2
	}
	capturePristine()
	loadKnown(*known)
	if p.Init != nil {
		p.Init()
	}
	var t *Tape
	if rep.Tape == nil {
		t = NewTape(rep.Seed, uint64(rep.Run))
	} else {
		t = ReplayTape(rep.Tape)
	}
	res, c := runTape(p, rep.Tier, t, true, nil)
	fmt.Println(string(prettyJSON(c.R)))
	for _, e := range c.evList {
		fmt.Println("  event:", e)
	}
	if res.V == nil {
		fmt.Printf("replay: no violation on this tree (recorded: %s)\n", rep.Violation.String())
		return 0
	}
	fmt.Printf("violation: %s\n", res.V.String())
	same := res.V.Clause == rep.Violation.Clause
	hash := fmt.Sprintf("%016x", uint64(res.EvHash))
	fmt.Printf("replay: clause %s (recorded %s), event-log hash %s (recorded %s) => %s\n", res.V.Clause, rep.Violation.Clause, hash, rep.EvHash,
		map[bool]string{true: "REPRODUCED EXACTLY", false: "reproduced with differences"}[same && (hash == rep.EvHash || rep.EvHash == "")])
	fmt.Printf("VIOLATION property=%s replay=%s\n", p.ID, fs.Arg(0))
	return 1
}

// detDump prints one line "<run> <evhash> <violation?>" per case: used by
// selftest.sh to compare processes, GOMAXPROCS values and worker counts.
func detDump(args []string) int {
	fs := flag.NewFlagSet("det", flag.ExitOnError)
	prop := fs.String("prop", "", "")
	tier := fs.String("tier", "quick", "")
	seed := fs.Uint64("seed", 1, "")
	from := fs.Int("from", 0, "")
	to := fs.Int("to", 100, "")
	known := fs.String("known", "", "")
	fs.Parse(args)
	p := registry[*prop]
	if p == nil {
		return 2
	}
	capturePristine()
	loadKnown(*known)
	if p.Init != nil {
		p.Init()
	}
	for i := *from; i < *to; i++ {
		res, c := runTape(p, *tier, NewTape(*seed, uint64(i)), false, nil)
		v := "-"
		if res.V != nil {
			v = res.V.Clause
		}
		fmt.Printf("%d %016x %d %s\n", i, uint64(res.EvHash), c.Steps, v)
	}
	return 0
}
