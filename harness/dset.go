package main

import (
	"encoding/base64"
	"math"
	"math/bits"
	"sort"
)

// DSet counts distinct 64-bit hashes: exactly while small, with HyperLogLog
// (2^14 registers, standard error 0.81 %) once it grows past exactLimit.
type DSet struct {
	exact map[uint64]struct{}
	hll   []uint8
}

const exactLimit = 150_000
const hllP = 14

func NewDSet() *DSet { return &DSet{exact: map[uint64]struct{}{}} }

func (d *DSet) Add(h uint64) {
	if d.hll != nil {
		d.addHLL(h)
		return
	}
	d.exact[h] = struct{}{}
	if len(d.exact) > exactLimit {
		d.toHLL()
	}
}

func (d *DSet) toHLL() {
	if d.hll != nil {
		return
	}
	d.hll = make([]uint8, 1<<hllP)
	for h := range d.exact {
		d.addHLL(h)
	}
	d.exact = nil
}

func (d *DSet) addHLL(h uint64) {
	x := splitmix(h)
	idx := x >> (64 - hllP)
	w := x<<hllP | 1<<(hllP-1)
	r := uint8(bits.LeadingZeros64(w) + 1)
	if r > d.hll[idx] {
		d.hll[idx] = r
	}
}

func (d *DSet) Merge(o *DSet) {
	if o == nil {
		return
	}
	if d.hll == nil && o.hll == nil {
		for h := range o.exact {
			d.Add(h)
		}
		return
	}
	d.toHLL()
	if o.hll == nil {
		for h := range o.exact {
			d.addHLL(h)
		}
		return
	}
	for i, r := range o.hll {
		if r > d.hll[i] {
			d.hll[i] = r
		}
	}
}

// Count returns the number of distinct values and whether it is exact.  The
// HyperLogLog estimate is reported conservatively: three standard errors are
// subtracted.
func (d *DSet) Count() (int, bool) {
	if d.hll == nil {
		return len(d.exact), true
	}
	m := float64(len(d.hll))
	sum, zeros := 0.0, 0
	for _, r := range d.hll {
		sum += math.Pow(2, -float64(r))
		if r == 0 {
			zeros++
		}
	}
	e := 0.7213 / (1 + 1.079/m) * m * m / sum
	if e <= 2.5*m && zeros > 0 {
		e = m * math.Log(m/float64(zeros))
	}
	e *= 1 - 3*1.04/math.Sqrt(m)
	return int(e), false
}

type dsetJSON struct {
	Exact []uint64 `json:"exact,omitempty"`
	HLL   string   `json:"hll,omitempty"`
}

func (d *DSet) toJSON() dsetJSON {
	if d.hll != nil {
		return dsetJSON{HLL: base64.StdEncoding.EncodeToString(d.hll)}
	}
	l := make([]uint64, 0, len(d.exact))
	for h := range d.exact {
		l = append(l, h)
	}
	sort.Slice(l, func(i, j int) bool { return l[i] < l[j] })
	return dsetJSON{Exact: l}
}

func dsetFromJSON(j dsetJSON) *DSet {
	d := NewDSet()
	if j.HLL != "" {
		b, err := base64.StdEncoding.DecodeString(j.HLL)
		if err == nil && len(b) == 1<<hllP {
			d.hll = b
			d.exact = nil
			return d
		}
	}
	for _, h := range j.Exact {
		d.Add(h)
	}
	return d
}
