package main

import (
	"strconv"
	"strings"
)

// ---------------------------------------------------------------- XML documents

type XMLOpts struct {
	Seq      bool // sequence-codec domain: comments, directives, PIs inside elements, xmlns attributes
	Prolog   bool // may start with <?xml ...?>
	Mixed    bool // text may stand beside child elements
	MaxDepth int
	MaxKids  int
	Small    bool
	// Wide: some element is repeated 33..70 times (lists longer than mxj's initial
	// result capacity of 32, decoded with spare capacity in their backing array)
	Wide bool
}

var xmlNames = []string{"a", "b", "c", "d", "item", "e-f", "Name", "ns:g", "x1", "list", "ab", "items", "a1", "B", "n-s:h"}
var xmlAttrNames = []string{"id", "k", "x", "y-z", "Ref", "n", "idx", "key", "xa"}
var xmlTexts = []string{"v", "1", "true", "hello world", "3.14", " padded ", "x&amp;y", "&lt;tag&gt;", "q&quot;&apos;", "é☃", "<![CDATA[<c>&d]]>", "a>b", "0", "-7", "line1\nline2", "]", "}{", "100%", "a%20b %s %d", "50%% off", "$1 #2 @3", "tab\there", "18446744073709551615", "9223372036854775808", "1e999", "+Inf", "0x1F", "T", "false"}

func genXMLDoc(t *Tape, o XMLOpts) string {
	var b strings.Builder
	if o.Prolog && t.Draw(5) == 4 {
		b.WriteString(`<?xml version="1.0" encoding="UTF-8"?>`)
		if t.Draw(2) == 1 {
			b.WriteString("\n")
		}
	}
	if o.MaxDepth == 0 {
		o.MaxDepth = 3
	}
	if o.MaxKids == 0 {
		o.MaxKids = 4
	}
	genXMLElem(t, &b, o, 0)
	return b.String()
}

func genXMLElem(t *Tape, b *strings.Builder, o XMLOpts, depth int) {
	name := xmlNames[t.Small(len(xmlNames))]
	b.WriteString("<" + name)
	na := t.Small(4)
	used := map[string]bool{}
	for i := 0; i < na; i++ {
		an := xmlAttrNames[t.Draw(len(xmlAttrNames))]
		if used[an] {
			continue
		}
		used[an] = true
		q := `"`
		if t.Draw(4) == 3 {
			q = `'`
		}
		v := xmlTexts[t.Draw(len(xmlTexts))]
		if strings.HasPrefix(v, "<![CDATA[") {
			v = "cd"
		}
		if t.Draw(10) == 9 {
			v = "" // an attribute without content
		}
		v = strings.ReplaceAll(v, "\n", " ")
		b.WriteString(" " + an + "=" + q + v + q)
	}
	if o.Seq && depth == 0 && t.Draw(6) == 5 {
		b.WriteString(` xmlns:ns="urn:x"`)
	}
	kind := t.Draw(6) // 0 empty-selfclose, 1 empty pair, 2 text, 3.. children
	if depth >= o.MaxDepth && kind > 2 {
		kind = 2
	}
	switch kind {
	case 0:
		if t.Draw(3) == 2 {
			b.WriteString(" ")
		}
		b.WriteString("/>")
		return
	case 1:
		b.WriteString("></" + name + ">")
		return
	case 2:
		b.WriteString(">")
		b.WriteString(xmlTexts[t.Draw(len(xmlTexts))])
		b.WriteString("</" + name + ">")
		return
	}
	b.WriteString(">")
	ws := func() {
		switch t.Draw(4) {
		case 1:
			b.WriteString("\n")
		case 2:
			b.WriteString("\n  ")
		case 3:
			b.WriteString(" ")
		}
	}
	if o.Mixed && t.Draw(5) == 4 {
		b.WriteString(xmlTexts[t.Draw(len(xmlTexts))])
	}
	nk := 1 + t.Small(o.MaxKids)
	if o.Wide && depth == 1 && t.Draw(2) == 1 {
		n := 33 + t.Draw(38)
		if t.Draw(8) == 7 {
			n = 128 + t.Draw(80) // (anything that treats "large" lists differently starts somewhere)
		}
		for i := 0; i < n; i++ {
			b.WriteString("<item>" + strconv.Itoa(i) + "</item>")
		}
	}
	for i := 0; i < nk; i++ {
		ws()
		if o.Seq {
			switch t.Draw(12) {
			case 9:
				b.WriteString("<!-- note " + strconv.Itoa(i) + " -->")
				continue
			case 10:
				b.WriteString("<?pi target" + strconv.Itoa(i) + "?>")
				continue
			case 11:
				b.WriteString("<!DIRECTIVE d>")
				continue
			}
		} else if t.Draw(16) == 15 {
			b.WriteString("<!-- c -->")
		}
		genXMLElem(t, b, o, depth+1)
	}
	ws()
	b.WriteString("</" + name + ">")
}

var interDocWS = []string{"", "\n", " ", "\r\n", "\t", "\n\n  ", "   "}

// ---------------------------------------------------------------- JSON documents

var jsonKeys = []string{"a", "b", "k", "name", "list", "x y", "-id", "#text", "q\"k", "é"}
var jsonStrs = []string{"v", "", "hello", "{", "}", "[x]", "a\"b", "back\\", "\\", "tab\there", "<&>", "}{\"", "é☃", "nl\nx", " sp ", "\\\"", "{\"k\":1}", "\\u003c", "x\\", "100%", "%s %v %!", "a%20b"}

type JSONOpts struct {
	WS       bool // inter-token whitespace
	MaxDepth int
	Nulls    bool
	// EmptyTop: one document in ten is the empty object {} (skipped by the bulk
	// handlers and file readers: known findings C13/C19-empty-object-skipped)
	EmptyTop bool
	// SingleKey: every object has at most one key, so that encoders which walk
	// maps in hash order (encoding/gob) produce the same bytes on every run.
	SingleKey bool
}

func jsonQuote(s string) string {
	var b strings.Builder
	b.WriteByte('"')
	for _, r := range s {
		switch r {
		case '"':
			b.WriteString(`\"`)
		case '\\':
			b.WriteString(`\\`)
		case '\n':
			b.WriteString(`\n`)
		case '\t':
			b.WriteString(`\t`)
		default:
			b.WriteRune(r)
		}
	}
	b.WriteByte('"')
	return b.String()
}

func genJSONDoc(t *Tape, o JSONOpts) string {
	var b strings.Builder
	if o.MaxDepth == 0 {
		o.MaxDepth = 3
	}
	if o.EmptyTop && t.Draw(10) == 9 {
		if o.WS && t.Draw(2) == 1 {
			return "{ }"
		}
		return "{}"
	}
	genJSONObj(t, &b, o, 0, true)
	return b.String()
}

func jws(t *Tape, b *strings.Builder, o JSONOpts) {
	if !o.WS {
		return
	}
	switch t.Draw(6) {
	case 3:
		b.WriteString(" ")
	case 4:
		b.WriteString("\n")
	case 5:
		b.WriteString("\t ")
	}
}

func genJSONObj(t *Tape, b *strings.Builder, o JSONOpts, depth int, nonEmpty bool) {
	b.WriteString("{")
	n := t.Small(5)
	if nonEmpty && n == 0 {
		n = 1
	}
	if o.SingleKey && n > 1 {
		n = 1
	}
	used := map[string]bool{}
	first := true
	for i := 0; i < n; i++ {
		k := jsonKeys[t.Small(len(jsonKeys))]
		if used[k] {
			continue
		}
		used[k] = true
		if !first {
			b.WriteString(",")
		}
		first = false
		jws(t, b, o)
		b.WriteString(jsonQuote(k))
		jws(t, b, o)
		b.WriteString(":")
		jws(t, b, o)
		genJSONVal(t, b, o, depth+1)
		jws(t, b, o)
	}
	b.WriteString("}")
}

func genJSONVal(t *Tape, b *strings.Builder, o JSONOpts, depth int) {
	k := t.Draw(9)
	if depth >= o.MaxDepth && k >= 6 {
		k = t.Draw(6)
	}
	switch k {
	case 0, 1, 2:
		b.WriteString(jsonQuote(jsonStrs[t.Draw(len(jsonStrs))]))
	case 3:
		b.WriteString([]string{"0", "1", "-3", "2.5", "1e3", "123456789012", "0.001", "1234567890123456789", "9007199254740993", "1e18", "-0", "1e21", "18446744073709551616"}[t.Draw(13)])
	case 4:
		b.WriteString([]string{"true", "false"}[t.Draw(2)])
	case 5:
		if o.Nulls {
			b.WriteString("null")
		} else {
			b.WriteString(`"n"`)
		}
	case 6, 7:
		genJSONObj(t, b, o, depth, false)
	case 8:
		b.WriteString("[")
		n := t.Small(4)
		if o.SingleKey {
			n = t.Small(7)
		}
		for i := 0; i < n; i++ {
			if i > 0 {
				b.WriteString(",")
			}
			jws(t, b, o)
			genJSONVal(t, b, o, depth+1)
		}
		b.WriteString("]")
	}
}
