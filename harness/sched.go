package main

import (
	"fmt"
	"runtime"

	"github.com/clbanning/mxj/v2/verifsim"
)

// The cooperative scheduler (DESIGN.md §2.3): tasks are real goroutines,
// exactly one runs at a time, control is handed over only at the generated
// verifsim.Yield points, and every hand-over decision is a function of values
// drawn from the tape before the run starts.

type schedPolicy struct {
	Kind     int    `json:"kind"`                    // 0 preemption-bounded, 1 PCT priorities, 2 random switch, 3 round-robin quantum
	Preempt  []int  `json:"preempt_at,omitempty"`    // kind 0: global steps at which the running task is preempted
	NextTask []int  `json:"next_task,omitempty"`     // kind 0: who runs after each preemption (index into runnable tasks)
	Prio     []int  `json:"priorities,omitempty"`    // kind 1
	Change   []int  `json:"change_points,omitempty"` // kind 1: steps at which the running task drops to lowest priority
	Seed     uint64 `json:"seed,omitempty"`          // kind 2
	PerMille int    `json:"switch_per_mille,omitempty"`
	Quantum  int    `json:"quantum,omitempty"` // kind 3
	First    int    `json:"first_task"`
}

func (p *schedPolicy) String() string {
	switch p.Kind {
	case 0:
		return fmt.Sprintf("preemption-bounded first=%d preempt@%v next=%v", p.First, p.Preempt, p.NextTask)
	case 1:
		return fmt.Sprintf("pct prio=%v change@%v", p.Prio, p.Change)
	case 2:
		return fmt.Sprintf("random-switch p=%d/1000 seed=%d first=%d", p.PerMille, p.Seed, p.First)
	}
	return fmt.Sprintf("round-robin quantum=%d first=%d", p.Quantum, p.First)
}

func drawSchedPolicy(t *Tape, ntasks, totalSteps int) *schedPolicy {
	p := &schedPolicy{Kind: t.Draw(4), First: t.Draw(ntasks)}
	if totalSteps < 1 {
		totalSteps = 1
	}
	switch p.Kind {
	case 0:
		k := t.Small(6)
		for i := 0; i < k; i++ {
			p.Preempt = append(p.Preempt, t.Draw(totalSteps))
			p.NextTask = append(p.NextTask, t.Draw(ntasks))
		}
	case 1:
		for i := 0; i < ntasks; i++ {
			p.Prio = append(p.Prio, t.Draw(1000))
		}
		d := t.Small(5)
		for i := 0; i < d; i++ {
			p.Change = append(p.Change, t.Draw(totalSteps))
		}
	case 2:
		p.Seed = uint64(t.Draw(1 << 30))
		p.PerMille = []int{5, 20, 80, 250, 600}[t.Draw(5)]
	case 3:
		p.Quantum = 1 + t.Small(40)
	}
	return p
}

type simTask struct {
	id        int
	resume    chan struct{}
	done      bool
	started   bool
	body      func()
	midShared bool // inside an operation on the shared value
	cheap     bool // the running operation asked for the per-yield invariants to be skipped
	prio      int
	quantum   int
	root      int  // the top-level task this one descends from (itself for a top-level task)
	child     bool // started by a `go` statement of the package under test
	adopted   bool // the harness' own goroutine, adopted as task 0 of an ambient scheduler
	killed    bool // left blocked when its starter was done: unwound with runtime.Goexit
	nspawned  int  // goroutines started so far by this task and its descendants (kept in the top-level task)
	ordinal   int  // position among the goroutines of its top-level task
	ipol      *iterPolicy
}

// childPol is the map-iteration policy of a goroutine started by the package: the kind of its
// top-level task's policy with a stream of its own, so that what the goroutines consume - which
// may depend on the schedule - does not shift the orders their starter sees afterwards.
func (t *simTask) childPol(root *iterPolicy) *iterPolicy {
	if t.ipol == nil {
		cp := *root
		cp.counter = 0
		cp.Seed = splitmix(root.Seed ^ uint64(t.ordinal)*0xD1B54A32D192ED03)
		t.ipol = &cp
	}
	return t.ipol
}

type sched struct {
	c              *Ctx
	tasks          []*simTask
	cur            *simTask
	pol            *schedPolicy
	step           int
	finished       chan struct{}
	switches       int
	ilHash         Hash
	trace          []string
	stop           bool // an invariant failed: finish without further switching
	viol           *Violation
	invariant      func(site int) *Violation
	noPreempt      bool // the package blocks in ways the scheduler does not model: tasks run to completion
	overlap        bool // two tasks were inside shared-value operations at the same time
	preemptedSites map[int]bool
	preIdx         map[int]int
	chgIdx         map[int]bool

	// goroutines of the package under test (verifsim.Go) are tasks like any other
	idle           int  // Blocked() calls since anybody last made progress
	epoch          int  // bumped when a deadlock is declared: every task that was blocked gives up
	ambient        bool // no C17 run in progress: task 0 is the harness goroutine itself
	goPanics       []string
	childStepLimit bool
	killing        bool
	quiescing      bool // ambient: the guarded call has returned, the harness lets the goroutines run on
	oldYield       func(int)
	oldBlocked     func()
	spawned        int
	calls          int
	ownsRace       bool
}

func newSched(c *Ctx, pol *schedPolicy) *sched {
	s := &sched{c: c, pol: pol, finished: make(chan struct{}), ilHash: fnvOff, preemptedSites: map[int]bool{}, preIdx: map[int]int{}, chgIdx: map[int]bool{}}
	for i, st := range pol.Preempt {
		if _, dup := s.preIdx[st]; !dup {
			s.preIdx[st] = i
		}
	}
	for _, st := range pol.Change {
		s.chgIdx[st] = true
	}
	return s
}

func (s *sched) add(body func()) *simTask {
	t := &simTask{id: len(s.tasks), resume: make(chan struct{}), body: body}
	t.root = t.id
	if s.pol.Kind == 1 && t.id < len(s.pol.Prio) {
		t.prio = s.pol.Prio[t.id]
	}
	s.tasks = append(s.tasks, t)
	return t
}

func (s *sched) runnable() []*simTask {
	var r []*simTask
	for _, t := range s.tasks {
		if !t.done {
			r = append(r, t)
		}
	}
	return r
}

// start parks a new goroutine for t; it runs t.body when it is first given the turn.
func (s *sched) start(t *simTask) {
	go func() {
		defer func() {
			// (also reached through runtime.Goexit when the task is unwound)
			t.done = true
			s.idle = 0
			s.leave(t)
		}()
		<-t.resume
		if t.killed {
			return
		}
		t.started = true
		s.runBody(t)
	}()
}

func (s *sched) runBody(t *simTask) {
	if t.child {
		// a panic in a goroutine of the package under test would end the process: recorded, reported
		// by whoever guards the call that started it
		defer func() {
			if r := recover(); r != nil {
				if _, ok := r.(stepLimit); ok {
					s.childStepLimit = true
					s.c.childStepLimit = true
				} else {
					s.c.goPanics = append(s.c.goPanics, fmt.Sprintf("%v", r))
				}
				s.c.Event("goroutine %d ended by panic", t.id)
			}
		}()
	}
	t.body()
}

// leave hands the turn over when t has finished, or reports completion.
func (s *sched) leave(t *simTask) {
	r := s.runnable()
	if s.killing {
		// leftover goroutines are unwound one after another
		for _, x := range r {
			if x.killed {
				s.cur = x
				x.resume <- struct{}{}
				return
			}
		}
		s.killing = false
		if s.ambient {
			s.cur = s.tasks[0]
			s.tasks[0].resume <- struct{}{}
			return
		}
		s.cur = nil
		close(s.finished)
		return
	}
	if len(r) == 0 {
		s.cur = nil
		close(s.finished)
		return
	}
	next := s.choose(r, t, true)
	s.note(t, next, -1)
	s.cur = next
	next.resume <- struct{}{}
}

// spawn adds a goroutine started by the package under test (verifsim.Go): it is parked until the
// policy, a blocked task or a finished task gives it the turn.
func (s *sched) spawn(body func()) {
	t := s.add(body)
	t.child = true
	if s.cur != nil {
		t.root = s.cur.root
		rt := s.tasks[t.root]
		rt.nspawned++
		t.ordinal = rt.nspawned
		// (PCT) a priority of its own: a goroutine may run far ahead of its siblings or lag far behind
		t.prio = int(splitmix(s.pol.Seed^uint64(s.cur.prio)*0x9E3779B97F4A7C15^uint64(t.ordinal)*0xC2B2AE3D27D4EB4F) % 1000)
	}
	s.idle = 0
	s.spawned++
	s.c.C["goroutines_started_by_package"]++
	s.c.Event("go task=%d", t.id)
	if r := verifsim.Race; r != nil {
		r.Fork(t.id)
	}
	s.start(t)
}

// run executes all tasks to completion under the policy.
func (s *sched) run() {
	for _, t := range s.tasks {
		s.start(t)
	}
	first := s.tasks[s.pol.First%len(s.tasks)]
	s.cur = first
	old, oldB := s.c.yieldFn, s.c.blockedFn
	s.c.yieldFn = s.yield
	s.c.blockedFn = s.blocked
	s.c.sch = s
	first.resume <- struct{}{}
	<-s.finished
	s.c.sch = nil
	s.c.yieldFn, s.c.blockedFn = old, oldB
}

// newAmbient makes the calling goroutine task 0 of a scheduler of its own: used when the package
// under test starts a goroutine outside a C17 run.  Its policy is a function of the execution so
// far (event-log hash and step count), hence of the tape.
func newAmbient(c *Ctx) *sched {
	seed := splitmix(uint64(c.ev) ^ uint64(c.Steps)*0x9E3779B97F4A7C15 ^ 0x5eed)
	pol := &schedPolicy{Kind: 2, Seed: seed, PerMille: []int{0, 5, 60, 250, 600}[int(seed>>40)%5]}
	if int(seed>>20)%3 == 0 {
		// PCT: strict priorities, the running task drops to the lowest at a few change points
		pol = &schedPolicy{Kind: 1, Seed: seed, Prio: []int{int(seed>>8) % 1000}}
		for i, d := 0, int(seed>>12)%4; i < d; i++ {
			pol.Change = append(pol.Change, int(splitmix(seed+uint64(i))%3000))
		}
	}
	s := newSched(c, pol)
	s.ambient = true
	t := s.add(nil)
	t.adopted, t.started = true, true
	s.cur = t
	s.oldYield, s.oldBlocked = c.yieldFn, c.blockedFn
	old := c.yieldFn
	c.yieldFn = func(site int) {
		if old != nil && s.cur == t {
			old(site)
		}
		s.yield(site)
	}
	c.blockedFn = s.blocked
	c.Event("ambient scheduler %s", pol.String())
	if verifsim.Race == nil {
		armRace(func(msg string) {
			if c.raceMsg == "" {
				c.raceMsg = msg
			}
		})
		s.ownsRace = verifsim.Race != nil
	}
	return s
}

// quiesce is called by the harness goroutine when a guarded call has returned (or panicked): the
// goroutines it started run on until each has finished or waits for something.  Those that wait
// stay parked - a pool of workers may serve the next call - until the package state is reset or
// the case ends (killAll).
func (s *sched) quiesce() {
	main := s.tasks[0]
	s.quiescing = true
	for {
		live := 0
		for _, t := range s.tasks[1:] {
			if !t.done {
				live++
			}
		}
		if live == 0 || s.idle > 2*(live+1)+2 || s.c.childStepLimit {
			break
		}
		s.idle++
		s.handoff(main)
	}
	s.quiescing = false
	s.idle = 0
}

// markLeftovers marks every live goroutine of the package for unwinding and returns the first.
func (s *sched) markLeftovers() (first *simTask) {
	for _, t := range s.tasks {
		if !t.done && t.child {
			t.killed = true
			s.c.C["goroutines_unwound_while_waiting"]++
			if first == nil {
				first = t
			}
		}
	}
	return first
}

// killAll unwinds (runtime.Goexit) the goroutines that are still parked and retires the ambient
// scheduler.  Called by the harness goroutine.
func (s *sched) killAll() {
	if first := s.markLeftovers(); first != nil {
		s.killing = true
		s.cur = first
		first.resume <- struct{}{}
		<-s.tasks[0].resume
	}
	s.cur = nil
	s.c.yieldFn, s.c.blockedFn = s.oldYield, s.oldBlocked
	s.c.C["context_switches_among_package_goroutines"] += int64(s.switches)
	s.c.amb = nil
	if s.ownsRace {
		disarmRace(s.c)
	}
}

// handoff gives the turn to the next live task after t in cyclic order and waits to get it back.
func (s *sched) handoff(t *simTask) {
	r := s.runnable()
	var next *simTask
	for _, x := range r {
		if x.id > t.id {
			next = x
			break
		}
	}
	if next == nil && len(r) > 0 && r[0] != t {
		next = r[0]
	}
	if next == nil {
		// nobody else can run: what t waits for can never happen
		panic(stepLimit{})
	}
	s.note(t, next, -2)
	s.cur = next
	next.resume <- struct{}{}
	<-t.resume
	if t.killed {
		runtime.Goexit()
	}
}

func (s *sched) note(from, to *simTask, site int) {
	s.switches++
	s.ilHash = s.ilHash.Int(from.id).Int(to.id).Int(site)
	s.c.Event("switch step=%d %d->%d site=%d", s.step, from.id, to.id, site)
	if s.c.Render && len(s.trace) < 200 {
		s.trace = append(s.trace, fmt.Sprintf("step %d: task %d -> task %d at %s", s.step, from.id, to.id, siteName(site)))
	}
}

// choose picks the next task among the runnable ones.
func (s *sched) choose(r []*simTask, cur *simTask, mustLeave bool) *simTask {
	switch s.pol.Kind {
	case 0:
		if i, ok := s.preIdx[s.step]; ok && !mustLeave {
			return r[s.pol.NextTask[i]%len(r)]
		}
		// a finished task: lowest id runnable (run-to-completion order)
		return r[0]
	case 1:
		best := r[0]
		for _, t := range r {
			if t.prio > best.prio {
				best = t
			}
		}
		return best
	case 2:
		x := splitmix(s.pol.Seed ^ uint64(s.step)*0x9E3779B97F4A7C15 ^ 0xabcdef)
		return r[int(x%uint64(len(r)))]
	default:
		// round robin: next id after cur
		for _, t := range r {
			if t.id > cur.id {
				return t
			}
		}
		return r[0]
	}
}

// yield is called (through the Yield hook) by the running task.
func (s *sched) yield(site int) {
	t := s.cur
	if t == nil || t.killed {
		return
	}
	s.step++
	s.idle = 0
	if s.invariant != nil && !s.stop && !t.cheap {
		if v := s.invariant(site); v != nil {
			s.viol = v
			s.stop = true
			s.c.Event("invariant failed at step %d site %d task %d", s.step, site, t.id)
			if s.c.Render {
				s.trace = append(s.trace, fmt.Sprintf("step %d: invariant failed in task %d at %s", s.step, t.id, siteName(site)))
			}
		}
	}
	if s.stop || s.noPreempt {
		return
	}
	mid := 0
	for _, x := range s.tasks {
		if x.midShared && !x.done {
			mid++
		}
	}
	if mid >= 2 {
		s.overlap = true
	}
	want := false
	switch s.pol.Kind {
	case 0:
		_, want = s.preIdx[s.step]
	case 1:
		if s.chgIdx[s.step] {
			lo := t.prio
			for _, x := range s.tasks {
				if x.prio < lo {
					lo = x.prio
				}
			}
			t.prio = lo - 1
		}
		want = true // always run the highest priority task
	case 2:
		x := splitmix(s.pol.Seed ^ uint64(s.step)*0xBF58476D1CE4E5B9)
		want = int(x%1000) < s.pol.PerMille
	case 3:
		t.quantum++
		if t.quantum >= s.pol.Quantum {
			t.quantum = 0
			want = true
		}
	}
	if !want {
		return
	}
	r := s.runnable()
	if len(r) < 2 {
		return
	}
	next := s.choose(r, t, false)
	if next == t {
		return
	}
	s.preemptedSites[site] = true
	s.note(t, next, site)
	s.cur = next
	next.resume <- struct{}{}
	<-t.resume
	if t.killed {
		runtime.Goexit()
	}
}

// blocked is called by the running task when it cannot take a lock (or waits
// for a sync.Once that another task is executing): control must go to another
// task, chosen round-robin so that the holder eventually runs.
func (s *sched) blocked() {
	t := s.cur
	if t == nil {
		return
	}
	if t.killed {
		runtime.Goexit()
	}
	s.step++
	s.idle++
	r := s.runnable()
	if s.idle > 2*len(r)+2 && !s.quiescing {
		// every live task has had the turn since anybody last made progress and all of them are
		// still waiting
		callers := 0
		for _, x := range r {
			if !x.child {
				callers++
			}
		}
		if callers == 0 {
			// only goroutines of the package are left, all waiting (workers nobody will feed any
			// more): they are unwound, the run is complete
			s.c.Event("goroutines left waiting at step %d", s.step)
			s.markLeftovers()
			s.killing = true
			runtime.Goexit()
		}
		// a caller waits, too: a deadlock.  Everybody who waits gives up (as a step-limit panic).
		s.epoch++
		s.idle = 0
		s.c.Event("deadlock declared at step %d", s.step)
		s.c.C["deadlocks_declared"]++
		s.c.deadlocked = true
		panic(stepLimit{})
	}
	ep := s.epoch
	s.handoff(t)
	if s.epoch != ep {
		panic(stepLimit{})
	}
}

// progress is called when a task got past a blocking point.
func (s *sched) progress() { s.idle = 0 }
