package main

import (
	"fmt"
)

// The cooperative scheduler (DESIGN.md §2.3): tasks are real goroutines,
// exactly one runs at a time, control is handed over only at the generated
// verifsim.Yield points, and every hand-over decision is a function of values
// drawn from the tape before the run starts.

type schedPolicy struct {
	Kind     int    `json:"kind"`                    // 0 preemption-bounded, 1 PCT priorities, 2 random switch, 3 round-robin quantum
	Preempt  []int  `json:"preempt_at,omitempty"`    // kind 0: global steps at which the running task is preempted
	NextTask []int  `json:"next_task,omitempty"`     // kind 0: who runs after each preemption (index into runnable tasks)
	Prio     []int  `json:"priorities,omitempty"`    // kind 1
	Change   []int  `json:"change_points,omitempty"` // kind 1: steps at which the running task drops to lowest priority
	Seed     uint64 `json:"seed,omitempty"`          // kind 2
	PerMille int    `json:"switch_per_mille,omitempty"`
	Quantum  int    `json:"quantum,omitempty"` // kind 3
	First    int    `json:"first_task"`
}

func (p *schedPolicy) String() string {
	switch p.Kind {
	case 0:
		return fmt.Sprintf("preemption-bounded first=%d preempt@%v next=%v", p.First, p.Preempt, p.NextTask)
	case 1:
		return fmt.Sprintf("pct prio=%v change@%v", p.Prio, p.Change)
	case 2:
		return fmt.Sprintf("random-switch p=%d/1000 seed=%d first=%d", p.PerMille, p.Seed, p.First)
	}
	return fmt.Sprintf("round-robin quantum=%d first=%d", p.Quantum, p.First)
}

func drawSchedPolicy(t *Tape, ntasks, totalSteps int) *schedPolicy {
	p := &schedPolicy{Kind: t.Draw(4), First: t.Draw(ntasks)}
	if totalSteps < 1 {
		totalSteps = 1
	}
	switch p.Kind {
	case 0:
		k := t.Small(6)
		for i := 0; i < k; i++ {
			p.Preempt = append(p.Preempt, t.Draw(totalSteps))
			p.NextTask = append(p.NextTask, t.Draw(ntasks))
		}
	case 1:
		for i := 0; i < ntasks; i++ {
			p.Prio = append(p.Prio, t.Draw(1000))
		}
		d := t.Small(5)
		for i := 0; i < d; i++ {
			p.Change = append(p.Change, t.Draw(totalSteps))
		}
	case 2:
		p.Seed = uint64(t.Draw(1 << 30))
		p.PerMille = []int{5, 20, 80, 250, 600}[t.Draw(5)]
	case 3:
		p.Quantum = 1 + t.Small(40)
	}
	return p
}

type simTask struct {
	id        int
	resume    chan struct{}
	done      bool
	started   bool
	body      func()
	midShared bool // inside an operation on the shared value
	cheap     bool // the running operation asked for the per-yield invariants to be skipped
	prio      int
	quantum   int
}

type sched struct {
	c              *Ctx
	tasks          []*simTask
	cur            *simTask
	pol            *schedPolicy
	step           int
	finished       chan struct{}
	switches       int
	ilHash         Hash
	trace          []string
	stop           bool // an invariant failed: finish without further switching
	viol           *Violation
	invariant      func(site int) *Violation
	noPreempt      bool // the package blocks in ways the scheduler does not model: tasks run to completion
	overlap        bool // two tasks were inside shared-value operations at the same time
	preemptedSites map[int]bool
	preIdx         map[int]int
	chgIdx         map[int]bool
}

func newSched(c *Ctx, pol *schedPolicy) *sched {
	s := &sched{c: c, pol: pol, finished: make(chan struct{}), ilHash: fnvOff, preemptedSites: map[int]bool{}, preIdx: map[int]int{}, chgIdx: map[int]bool{}}
	for i, st := range pol.Preempt {
		if _, dup := s.preIdx[st]; !dup {
			s.preIdx[st] = i
		}
	}
	for _, st := range pol.Change {
		s.chgIdx[st] = true
	}
	return s
}

func (s *sched) add(body func()) *simTask {
	t := &simTask{id: len(s.tasks), resume: make(chan struct{}), body: body}
	if s.pol.Kind == 1 && t.id < len(s.pol.Prio) {
		t.prio = s.pol.Prio[t.id]
	}
	s.tasks = append(s.tasks, t)
	return t
}

func (s *sched) runnable() []*simTask {
	var r []*simTask
	for _, t := range s.tasks {
		if !t.done {
			r = append(r, t)
		}
	}
	return r
}

// run executes all tasks to completion under the policy.
func (s *sched) run() {
	for _, t := range s.tasks {
		t := t
		go func() {
			<-t.resume
			t.started = true
			t.body()
			t.done = true
			// hand over to somebody else, or report completion
			r := s.runnable()
			if len(r) == 0 {
				s.cur = nil
				close(s.finished)
				return
			}
			next := s.choose(r, t, true)
			s.note(t, next, -1)
			s.cur = next
			next.resume <- struct{}{}
		}()
	}
	first := s.tasks[s.pol.First%len(s.tasks)]
	s.cur = first
	old, oldB := s.c.yieldFn, s.c.blockedFn
	s.c.yieldFn = s.yield
	s.c.blockedFn = s.blocked
	first.resume <- struct{}{}
	<-s.finished
	s.c.yieldFn, s.c.blockedFn = old, oldB
}

func (s *sched) note(from, to *simTask, site int) {
	s.switches++
	s.ilHash = s.ilHash.Int(from.id).Int(to.id).Int(site)
	s.c.Event("switch step=%d %d->%d site=%d", s.step, from.id, to.id, site)
	if s.c.Render && len(s.trace) < 200 {
		s.trace = append(s.trace, fmt.Sprintf("step %d: task %d -> task %d at %s", s.step, from.id, to.id, siteName(site)))
	}
}

// choose picks the next task among the runnable ones.
func (s *sched) choose(r []*simTask, cur *simTask, mustLeave bool) *simTask {
	switch s.pol.Kind {
	case 0:
		if i, ok := s.preIdx[s.step]; ok && !mustLeave {
			return r[s.pol.NextTask[i]%len(r)]
		}
		// a finished task: lowest id runnable (run-to-completion order)
		return r[0]
	case 1:
		best := r[0]
		for _, t := range r {
			if t.prio > best.prio {
				best = t
			}
		}
		return best
	case 2:
		x := splitmix(s.pol.Seed ^ uint64(s.step)*0x9E3779B97F4A7C15 ^ 0xabcdef)
		return r[int(x%uint64(len(r)))]
	default:
		// round robin: next id after cur
		for _, t := range r {
			if t.id > cur.id {
				return t
			}
		}
		return r[0]
	}
}

// yield is called (through the Yield hook) by the running task.
func (s *sched) yield(site int) {
	t := s.cur
	if t == nil {
		return
	}
	s.step++
	if s.invariant != nil && !s.stop && !t.cheap {
		if v := s.invariant(site); v != nil {
			s.viol = v
			s.stop = true
			s.c.Event("invariant failed at step %d site %d task %d", s.step, site, t.id)
			if s.c.Render {
				s.trace = append(s.trace, fmt.Sprintf("step %d: invariant failed in task %d at %s", s.step, t.id, siteName(site)))
			}
		}
	}
	if s.stop || s.noPreempt {
		return
	}
	mid := 0
	for _, x := range s.tasks {
		if x.midShared && !x.done {
			mid++
		}
	}
	if mid >= 2 {
		s.overlap = true
	}
	want := false
	switch s.pol.Kind {
	case 0:
		_, want = s.preIdx[s.step]
	case 1:
		if s.chgIdx[s.step] {
			lo := t.prio
			for _, x := range s.tasks {
				if x.prio < lo {
					lo = x.prio
				}
			}
			t.prio = lo - 1
		}
		want = true // always run the highest priority task
	case 2:
		x := splitmix(s.pol.Seed ^ uint64(s.step)*0xBF58476D1CE4E5B9)
		want = int(x%1000) < s.pol.PerMille
	case 3:
		t.quantum++
		if t.quantum >= s.pol.Quantum {
			t.quantum = 0
			want = true
		}
	}
	if !want {
		return
	}
	r := s.runnable()
	if len(r) < 2 {
		return
	}
	next := s.choose(r, t, false)
	if next == t {
		return
	}
	s.preemptedSites[site] = true
	s.note(t, next, site)
	s.cur = next
	next.resume <- struct{}{}
	<-t.resume
}

// blocked is called by the running task when it cannot take a lock (or waits
// for a sync.Once that another task is executing): control must go to another
// task, chosen round-robin so that the holder eventually runs.
func (s *sched) blocked() {
	t := s.cur
	if t == nil {
		return
	}
	s.step++
	r := s.runnable()
	var next *simTask
	for _, x := range r {
		if x.id > t.id {
			next = x
			break
		}
	}
	if next == nil && len(r) > 0 && r[0] != t {
		next = r[0]
	}
	if next == nil {
		// nobody else can run: the lock can never be released
		panic(stepLimit{})
	}
	s.note(t, next, -2)
	s.cur = next
	next.resume <- struct{}{}
	<-t.resume
}
