package main

import (
	"bytes"
	"encoding/xml"
	"fmt"
	"sort"
	"strings"

	mxj "github.com/clbanning/mxj/v2"
)

// ---------------------------------------------------------------- iteration policies

// iterPolicy decides the order of every `range` over a map inside mxj.
type iterPolicy struct {
	Kind    int    `json:"kind"` // 0 ascending, 1 descending, 2 rotate, 3 shuffle
	R       int    `json:"r,omitempty"`
	Seed    uint64 `json:"seed,omitempty"`
	counter uint64
}

func (p *iterPolicy) String() string {
	switch p.Kind {
	case 0:
		return "ascending"
	case 1:
		return "descending"
	case 2:
		return fmt.Sprintf("rotate(%d)", p.R)
	}
	return fmt.Sprintf("shuffle(%d)", p.Seed)
}

func (p *iterPolicy) reset() { p.counter = 0 }

func splitmix(x uint64) uint64 {
	x += 0x9E3779B97F4A7C15
	x = (x ^ (x >> 30)) * 0xBF58476D1CE4E5B9
	x = (x ^ (x >> 27)) * 0x94D049BB133111EB
	return x ^ (x >> 31)
}

func (p *iterPolicy) order(site, n int) []int {
	switch p.Kind {
	case 0:
		return nil
	case 1:
		o := make([]int, n)
		for i := range o {
			o[i] = n - 1 - i
		}
		return o
	case 2:
		o := make([]int, n)
		for i := range o {
			o[i] = (i + p.R) % n
		}
		return o
	}
	// stateless: a function of the policy, the range site and the number of keys - NOT of how many
	// ranges the task has executed before.  A memo cache, a gate that sends work to another goroutine
	// or an early exit changes how many ranges a task executes; with a running counter that shifted
	// the orders of everything the task did afterwards, and results that legitimately follow the
	// iteration order (LeafPaths ...) then differed between the sequential and the concurrent phase.
	s := splitmix(p.Seed ^ uint64(site+1)*0x9E3779B97F4A7C15 ^ uint64(n)*0xD6E8FEB86659FD93)
	o := make([]int, n)
	for i := range o {
		o[i] = i
	}
	for i := n - 1; i > 0; i-- {
		s = splitmix(s)
		j := int(s % uint64(i+1))
		o[i], o[j] = o[j], o[i]
	}
	return o
}

func drawPolicies(t *Tape, k int) []*iterPolicy {
	ps := []*iterPolicy{{Kind: 0}, {Kind: 1}, {Kind: 2, R: 1}}
	base := uint64(t.Draw(1 << 30))
	for i := 3; i < k; i++ {
		if i%5 == 4 {
			ps = append(ps, &iterPolicy{Kind: 2, R: 2 + t.Draw(5)})
		} else {
			ps = append(ps, &iterPolicy{Kind: 3, Seed: base + uint64(i)})
		}
	}
	return ps
}

// withPolicy runs f with map iteration inside mxj governed by p.
func withPolicy(c *Ctx, p *iterPolicy, f func()) {
	p.reset()
	old := c.mapOrderFn
	c.mapOrderFn = func(site, n int) []int {
		o := p.order(site, n)
		if o != nil {
			c.C["map_orders_imposed"]++
		}
		return o
	}
	defer func() { c.mapOrderFn = old }()
	f()
}

// ---------------------------------------------------------------- XML token helpers

type xnode struct {
	name  string
	attrs []string
	kids  []*xnode
}

// tokens renders the raw token stream; white-space-only character data is
// dropped and the rest trimmed (D3).
func xmlTokens(b []byte) ([]string, *xnode, error) {
	d := xml.NewDecoder(bytes.NewReader(b))
	var out []string
	root := &xnode{}
	stack := []*xnode{root}
	for {
		tok, err := d.RawToken()
		if err != nil {
			if err.Error() == "EOF" {
				if len(stack) != 1 {
					return nil, nil, fmt.Errorf("unclosed element")
				}
				return leafExact(out), root, nil
			}
			return nil, nil, err
		}
		switch x := tok.(type) {
		case xml.StartElement:
			nm := rawName(x.Name)
			s := "S:" + nm
			n := &xnode{name: nm}
			for _, a := range x.Attr {
				an := rawName(a.Name)
				n.attrs = append(n.attrs, an)
				s += " " + an + "=" + fmt.Sprintf("%q", a.Value)
			}
			out = append(out, s)
			stack[len(stack)-1].kids = append(stack[len(stack)-1].kids, n)
			stack = append(stack, n)
		case xml.EndElement:
			if len(stack) < 2 || stack[len(stack)-1].name != rawName(x.Name) {
				return nil, nil, fmt.Errorf("mismatched end tag %s", rawName(x.Name))
			}
			stack = stack[:len(stack)-1]
			out = append(out, "E:"+rawName(x.Name))
		case xml.CharData:
			out = append(out, "T:"+string(x)) // raw; normalised by leafExact below
		case xml.Comment:
			out = append(out, "C:"+string(x))
		case xml.ProcInst:
			out = append(out, "P:"+x.Target+" "+string(x.Inst))
		case xml.Directive:
			out = append(out, "D:"+string(x))
		}
	}
}

// leafExact normalises character data: the non-blank content of an element WITHOUT child elements
// is kept byte for byte (white space added to a value is not inter-element white space); everywhere
// else it is trimmed, and dropped when it is white space only.
func leafExact(toks []string) []string {
	out := toks[:0:0]
	for i, t := range toks {
		if !strings.HasPrefix(t, "T:") {
			out = append(out, t)
			continue
		}
		if i > 0 && i+1 < len(toks) && strings.HasPrefix(toks[i-1], "S:") && strings.HasPrefix(toks[i+1], "E:") && strings.TrimSpace(t[2:]) != "" {
			out = append(out, "X:"+t[2:])
			continue
		}
		if s := strings.TrimSpace(t[2:]); s != "" {
			out = append(out, "T:"+s)
		}
	}
	return out
}

func rawName(n xml.Name) string {
	if n.Space != "" {
		return n.Space + ":" + n.Local
	}
	return n.Local
}

// sortedOrder checks D2 for Map encoders: attribute names ascending, sibling
// element names non-decreasing (members of one list adjacent).
func sortedOrder(n *xnode) string {
	if !sort.StringsAreSorted(n.attrs) {
		return fmt.Sprintf("attributes of <%s> are not in ascending order: %v", n.name, n.attrs)
	}
	for i := 1; i < len(n.kids); i++ {
		if n.kids[i-1].name > n.kids[i].name {
			names := make([]string, len(n.kids))
			for j, k := range n.kids {
				names[j] = k.name
			}
			return fmt.Sprintf("children of <%s> are not in ascending key order: %v", n.name, names)
		}
	}
	for _, k := range n.kids {
		if s := sortedOrder(k); s != "" {
			return s
		}
	}
	return ""
}

func shape(n *xnode, b *strings.Builder) {
	b.WriteString("<" + n.name)
	for _, a := range n.attrs {
		b.WriteString(" " + a)
	}
	b.WriteString(">")
	for _, k := range n.kids {
		shape(k, b)
	}
	b.WriteString("</>")
}

// ---------------------------------------------------------------- workload

var c16Keys = []string{"a", "b", "c", "item", "e-f", "Name", "x1", "list", "zz", "B", "ab", "abc", "items", "lists", "a1", "e"}

// genXMLShapedValue builds a JSON-shaped value whose keys are XML names
// (C03 domain): nested maps, lists, scalars, nulls, attribute and text entries.
func genXMLShapedMap(t *Tape, depth int, top bool) map[string]interface{} {
	m := map[string]interface{}{}
	n := 1 + t.Small(5)
	if top && t.Draw(3) == 0 {
		n = 1
	}
	wide := false
	if t.Draw(8) == 7 {
		// a wide element: every width up to 24 keys (sorts that special-case a length show here)
		n = 1 + t.Draw(24)
		wide = true
	}
	for i := 0; i < n; i++ {
		k := c16Keys[t.Draw(len(c16Keys))]
		if wide {
			k = fmt.Sprintf("k%02d", (i*7+t.Draw(3))%40)
		}
		if _, dup := m[k]; dup {
			continue
		}
		m[k] = genXMLShapedVal(t, depth+1, top && n == 1)
	}
	if top && len(m) == 1 {
		// C03 domain: a single-key root whose value is not a list
		for k, v := range m {
			if _, isList := v.([]interface{}); isList {
				m[k] = "v"
			}
		}
	}
	if !top && t.Draw(3) == 0 {
		for i, na := 0, 1+t.Small(3); i < na; i++ {
			m["-"+xmlAttrNames[t.Draw(len(xmlAttrNames))]] = genScalar(t)
		}
	}
	if !top && t.Draw(5) == 0 {
		m["#text"] = jsonishStr(t)
	}
	return m
}

func jsonishStr(t *Tape) string {
	return []string{"v", "", "hello world", "<&>", "a\"b'c", " sp ", "é☃", "1", "true", "x&amp;y", "]]>", "100%", "a%20b %s", "two\nlines", "50%% off"}[t.Draw(15)]
}

func genScalar(t *Tape) interface{} {
	switch t.Draw(5) {
	case 0:
		return float64(t.Draw(100)) / 4
	case 1:
		return t.Draw(2) == 1
	case 2:
		return t.Draw(1000)
	}
	return jsonishStr(t)
}

func genXMLShapedVal(t *Tape, depth int, soleRoot bool) interface{} {
	k := t.Draw(10)
	if depth >= 4 && k >= 6 {
		k = t.Draw(6)
	}
	switch {
	case k < 5:
		return genScalar(t)
	case k == 5:
		return nil
	case k < 8:
		return genXMLShapedMap(t, depth, false)
	default:
		if soleRoot {
			return genXMLShapedMap(t, depth, false) // root = single key whose value is not a list
		}
		n := t.Small(4)
		l := make([]interface{}, 0, n)
		for i := 0; i < n; i++ {
			if t.Draw(2) == 0 {
				l = append(l, genScalar(t))
			} else {
				l = append(l, genXMLShapedMap(t, depth+1, false))
			}
		}
		return l
	}
}

type encEntry struct {
	name string
	f    func() ([]byte, error)
}

// ---------------------------------------------------------------- the case

func runC16(c *Ctx) *Violation {
	t := c.T
	K := 8
	if c.Tier == "thorough" {
		K = 24
	}
	kind := t.Draw(6)
	prefix := indentStrs[t.Small(len(indentStrs))]
	indent := indentStrs[1+t.Draw(len(indentStrs)-1)]
	mxj.XMLEscapeChars(true)
	pols := drawPolicies(t, K)
	c.Put("indent", fmt.Sprintf("prefix=%q indent=%q", prefix, indent))

	var entries []encEntry
	var isSeq bool
	var srcDoc []byte
	var m mxj.Map
	var ms mxj.MapSeq
	var err error
	switch kind {
	case 0, 1: // Map decoded from XML (C02 domain)
		doc := genXMLDoc(t, XMLOpts{Mixed: kind == 1, MaxKids: 5})
		if v := safely(c, "gen", func() { m, err = mxj.NewMapXml([]byte(doc), t.Draw(4) == 3) }); v != nil || err != nil {
			return nil
		}
		c.Put("decoded_from", doc)
	case 2: // JSON-shaped Map with XML-name keys (C03 domain)
		m = genXMLShapedMap(t, 0, true)
	case 3: // MapSeq (C04 domain: text alone or before the children)
		doc := genXMLDoc(t, XMLOpts{Seq: true, Mixed: true, MaxKids: 5})
		if v := safely(c, "gen", func() { ms, err = mxj.NewMapXmlSeq([]byte(doc)) }); v != nil || err != nil {
			return nil
		}
		if t.Draw(3) == 2 {
			// the MapSeq after a JSON round trip: every "#seq" is a float64 (the encoder supports that)
			var cp mxj.Map
			if v := safely(c, "gen", func() { cp, err = mxj.Map(ms).Copy() }); v != nil || err != nil {
				return nil
			}
			ms = mxj.MapSeq(cp)
			c.Put("mapseq_through_json", true)
		}
		isSeq = true
		srcDoc = []byte(doc)
		c.Put("decoded_from", doc)
	case 4:
		return runC16Maps(c, pols, prefix, indent)
	case 5:
		return runC16Any(c, pols, prefix, indent)
	}
	if isSeq {
		c.Put("mapseq", Canon(ms))
		entries = []encEntry{
			{"MapSeq.Xml", func() ([]byte, error) { return ms.Xml() }},
			{"MapSeq.XmlIndent", func() ([]byte, error) { return ms.XmlIndent(prefix, indent) }},
			{"MapSeq.Xml(root)", func() ([]byte, error) { return ms.Xml("root") }},
			{"MapSeq.StringIndent", func() ([]byte, error) { return []byte(ms.StringIndent()), nil }},
		}
	} else {
		c.Put("map", Canon(m))
		entries = []encEntry{
			{"Xml", func() ([]byte, error) { return m.Xml() }},
			{"XmlIndent", func() ([]byte, error) { return m.XmlIndent(prefix, indent) }},
			{"Xml(root)", func() ([]byte, error) { return m.Xml("root") }},
			{"XmlIndent(root)", func() ([]byte, error) { return m.XmlIndent(prefix, indent, "root") }},
			{"Json", func() ([]byte, error) { return m.Json() }},
			{"Json(safe)", func() ([]byte, error) { return m.Json(true) }},
			{"JsonIndent", func() ([]byte, error) { return m.JsonIndent(prefix, indent) }},
			{"JsonIndent(safe)", func() ([]byte, error) { return m.JsonIndent(prefix, indent, true) }},
			{"AnyXml", func() ([]byte, error) { return mxj.AnyXml(map[string]interface{}(m)) }},
			{"AnyXmlIndent", func() ([]byte, error) { return mxj.AnyXmlIndent(map[string]interface{}(m), prefix, indent) }},
			{"StringIndent", func() ([]byte, error) { return []byte(m.StringIndent()), nil }},
			{"StringIndentNoTypeInfo", func() ([]byte, error) { return []byte(m.StringIndentNoTypeInfo(1)), nil }},
		}
	}
	before := Digest(pickRecv(isSeq, m, ms))
	outs, v := d1(c, entries, pols)
	if v != nil {
		return v
	}
	if Digest(pickRecv(isSeq, m, ms)) != before {
		return &Violation{"C16.receiver-modified", "an encoder modified its receiver"}
	}

	// D2 / D3 on the XML outputs
	pairs := [][2]string{{"Xml", "XmlIndent"}, {"Xml(root)", "XmlIndent(root)"}, {"AnyXml", "AnyXmlIndent"}}
	if isSeq {
		pairs = [][2]string{{"MapSeq.Xml", "MapSeq.XmlIndent"}}
	}
	for _, pr := range pairs {
		a, b := outs[pr[0]], outs[pr[1]]
		if a.err != nil || b.err != nil {
			if (a.err == nil) != (b.err == nil) {
				return &Violation{"C16.d3-error-mismatch/" + pr[0], fmt.Sprintf("%s returned err=%v but %s returned err=%v", pr[0], a.err, pr[1], b.err)}
			}
			continue
		}
		ta, na, ea := xmlTokens(a.out)
		tb, _, eb := xmlTokens(b.out)
		if ea != nil && eb != nil {
			c.C["probe.d23_out_of_domain"]++
			continue
		}
		if ea != nil || eb != nil {
			return &Violation{"C16.d3-wellformed/" + pr[0], fmt.Sprintf("only one of the compact/indented forms tokenises:\n %s: %v %q\n %s: %v %q", pr[0], ea, clip(string(a.out), 300), pr[1], eb, clip(string(b.out), 300))}
		}
		c.C["probe.d3_checked"]++
		if strings.Join(ta, "\x00") != strings.Join(tb, "\x00") {
			return &Violation{"C16.d3-indent-differs/" + pr[0], fmt.Sprintf("indented and compact output differ in more than inter-element white space:\n %s: %q\n %s: %q", pr[0], clip(string(a.out), 400), pr[1], clip(string(b.out), 400))}
		}
		if !isSeq {
			c.C["probe.d2_checked"]++
			for _, k := range na.kids {
				if s := sortedOrder(k); s != "" {
					return &Violation{"C16.d2-order/" + pr[0], fmt.Sprintf("%s in %q", s, clip(string(a.out), 400))}
				}
			}
		} else {
			// sequence order: the element/attribute shape of the output equals the source document's
			_, ns, es := xmlTokens(srcDoc)
			if es == nil {
				c.C["probe.d2_seq_checked"]++
				var sa, sb strings.Builder
				for _, k := range ns.kids {
					shape(k, &sa)
				}
				for _, k := range na.kids {
					shape(k, &sb)
				}
				if sa.String() != sb.String() {
					return &Violation{"C16.d2-seq-order", fmt.Sprintf("MapSeq.Xml does not keep the sequence order of elements/attributes:\n source: %q\n output: %q", clip(string(srcDoc), 400), clip(string(a.out), 400))}
				}
			}
		}
	}

	// D4: writer forms
	if v := d4(c, isSeq, m, ms, prefix, indent, outs); v != nil {
		return v
	}
	// D1 again after the value has been modified in place: encoding is a function of the CONTENT,
	// so the modified value must encode exactly like a freshly built equal value
	if !isSeq {
		if v := reencodeAfterUpdate(c, m, prefix, indent); v != nil {
			return v
		}
	}
	if c.C["map_orders_imposed"] > 0 {
		c.Distinct("nontrivial", HashStr(Canon(pickRecv(isSeq, m, ms))).Int(K).Int(int(pols[len(pols)-1].Seed)))
	}
	if c.sample == nil {
		pn := make([]string, len(pols))
		for i, p := range pols {
			pn[i] = p.String()
		}
		c.sample = map[string]interface{}{"value": clip(Canon(pickRecv(isSeq, m, ms)), 240), "entry_points": len(entries), "iteration_policies": pn, "indent": fmt.Sprintf("%q/%q", prefix, indent)}
	}
	return nil
}

// reencodeAfterUpdate: the Map (already encoded several times above) is changed in place - one key of
// its widest nested map is replaced by another key with the same value, one value is overwritten -
// and encoded again; a deep copy of the changed Map (other addresses, same content) is the reference.
func reencodeAfterUpdate(c *Ctx, m mxj.Map, prefix, indent string) *Violation {
	var widest map[string]interface{}
	var walk func(v interface{})
	walk = func(v interface{}) {
		switch x := v.(type) {
		case map[string]interface{}:
			if len(x) > len(widest) {
				widest = x
			}
			ks := make([]string, 0, len(x))
			for k := range x {
				ks = append(ks, k)
			}
			sort.Strings(ks)
			for _, k := range ks {
				walk(x[k])
			}
		case []interface{}:
			for _, e := range x {
				walk(e)
			}
		}
	}
	walk(map[string]interface{}(m))
	if len(widest) < 2 {
		return nil
	}
	ks := make([]string, 0, len(widest))
	for k := range widest {
		ks = append(ks, k)
	}
	sort.Strings(ks)
	victim := ks[len(ks)/2]
	if strings.HasPrefix(victim, "-") || victim == "#text" {
		return nil
	}
	val := widest[victim]
	delete(widest, victim)
	widest[victim+"x"] = val
	widest[ks[0]] = "changed"
	c.C["probe.d1_after_update_checked"]++
	fresh := mxj.Map(DeepCopy(map[string]interface{}(m)).(map[string]interface{}))
	for _, e := range []struct {
		n string
		f func(x mxj.Map) ([]byte, error)
	}{
		{"Xml", func(x mxj.Map) ([]byte, error) { return x.Xml() }},
		{"XmlIndent", func(x mxj.Map) ([]byte, error) { return x.XmlIndent(prefix, indent) }},
		{"Json", func(x mxj.Map) ([]byte, error) { return x.Json() }},
		{"StringIndent", func(x mxj.Map) ([]byte, error) { return []byte(x.StringIndent()), nil }},
	} {
		var a, b []byte
		var ea, eb error
		c.Eval()
		if v := safely(c, e.n+" after in-place update", func() { a, ea = e.f(m); b, eb = e.f(fresh) }); v != nil {
			return v
		}
		if !bytes.Equal(a, b) || (ea == nil) != (eb == nil) {
			return &Violation{"C16.d1-stale-after-update/" + e.n, fmt.Sprintf("%s of a Map that was modified in place after earlier encodings differs from %s of an equal, freshly built Map:\n modified: %q\n fresh:    %q", e.n, e.n, clip(string(a), 400), clip(string(b), 400))}
		}
	}
	return nil
}

func pickRecv(isSeq bool, m mxj.Map, ms mxj.MapSeq) interface{} {
	if isSeq {
		return map[string]interface{}(ms)
	}
	return map[string]interface{}(m)
}

type encOut struct {
	out []byte
	err error
}

// d1: every entry point returns byte-identical output under every iteration
// policy and on a second call.
func d1(c *Ctx, entries []encEntry, pols []*iterPolicy) (map[string]encOut, *Violation) {
	outs := map[string]encOut{}
	for _, e := range entries {
		var ref encOut
		for pi, p := range pols {
			var o encOut
			c.Eval()
			var v *Violation
			withPolicy(c, p, func() {
				v = safely(c, e.name, func() { o.out, o.err = e.f() })
			})
			if v != nil {
				c.Put("policy", p.String())
				return nil, v
			}
			c.Event("%s/%s -> %x %v", e.name, p.String(), uint64(fnvOff.Bytes(o.out)), o.err)
			if pi == 0 {
				ref = o
				outs[e.name] = o
				// second call, same policy
				var o2 encOut
				withPolicy(c, p, func() {
					v = safely(c, e.name, func() { o2.out, o2.err = e.f() })
				})
				if v != nil {
					return nil, v
				}
				c.C["probe.d1_repeat_checked"]++
				if !bytes.Equal(o2.out, o.out) || (o2.err == nil) != (o.err == nil) {
					return nil, &Violation{"C16.d1-repeat/" + e.name, fmt.Sprintf("%s called twice on the same value returned different output:\n 1st: %q (%v)\n 2nd: %q (%v)", e.name, clip(string(o.out), 300), o.err, clip(string(o2.out), 300), o2.err)}
				}
				continue
			}
			c.C["probe.d1_policy_checked"]++
			if !bytes.Equal(o.out, ref.out) || (o.err == nil) != (ref.err == nil) {
				c.Put("policy", p.String())
				return nil, &Violation{"C16.d1-order-dependent/" + e.name, fmt.Sprintf("%s depends on map iteration order:\n ascending: %q (%v)\n %s: %q (%v)", e.name, clip(string(ref.out), 400), ref.err, p.String(), clip(string(o.out), 400), o.err)}
			}
		}
	}
	return outs, nil
}

// d4: the slices offered to the sink are exactly the bytes the byte-returning form returns.
func d4(c *Ctx, isSeq bool, m mxj.Map, ms mxj.MapSeq, prefix, indent string, outs map[string]encOut) *Violation {
	t := c.T
	type wform struct {
		name, ref string
		f         func(w *SimWriter) ([]byte, bool, error)
	}
	var forms []wform
	if isSeq {
		forms = []wform{
			{"MapSeq.XmlWriter", "MapSeq.Xml", func(w *SimWriter) ([]byte, bool, error) { return nil, false, ms.XmlWriter(w) }},
			{"MapSeq.XmlIndentWriter", "MapSeq.XmlIndent", func(w *SimWriter) ([]byte, bool, error) { return nil, false, ms.XmlIndentWriter(w, prefix, indent) }},
		}
	} else {
		forms = []wform{
			{"XmlWriter", "Xml", func(w *SimWriter) ([]byte, bool, error) { return nil, false, m.XmlWriter(w) }},
			{"XmlIndentWriter", "XmlIndent", func(w *SimWriter) ([]byte, bool, error) { return nil, false, m.XmlIndentWriter(w, prefix, indent) }},
			{"JsonWriter", "Json", func(w *SimWriter) ([]byte, bool, error) { return nil, false, m.JsonWriter(w) }},
			{"JsonWriter(safe)", "Json(safe)", func(w *SimWriter) ([]byte, bool, error) { return nil, false, m.JsonWriter(w, true) }},
			{"JsonWriterRaw", "Json", func(w *SimWriter) ([]byte, bool, error) { b, e := m.JsonWriterRaw(w); return b, true, e }},
			{"JsonWriterRaw(safe)", "Json(safe)", func(w *SimWriter) ([]byte, bool, error) { b, e := m.JsonWriterRaw(w, true); return b, true, e }},
			{"JsonIndentWriter", "JsonIndent", func(w *SimWriter) ([]byte, bool, error) { return nil, false, m.JsonIndentWriter(w, prefix, indent) }},
			{"JsonIndentWriter(safe)", "JsonIndent(safe)", func(w *SimWriter) ([]byte, bool, error) {
				return nil, false, m.JsonIndentWriter(w, prefix, indent, true)
			}},
			{"JsonIndentWriterRaw", "JsonIndent", func(w *SimWriter) ([]byte, bool, error) {
				b, e := m.JsonIndentWriterRaw(w, prefix, indent)
				return b, true, e
			}},
			{"JsonIndentWriterRaw(safe)", "JsonIndent(safe)", func(w *SimWriter) ([]byte, bool, error) {
				b, e := m.JsonIndentWriterRaw(w, prefix, indent, true)
				return b, true, e
			}},
		}
	}
	for _, f := range forms {
		ref := outs[f.ref]
		if ref.err != nil {
			continue
		}
		ws := WriteSched{Mode: t.Draw(3)}
		if ws.Mode != 0 {
			ws.K = t.Draw(len(ref.out) + 1)
		}
		w := &SimWriter{c: c, s: ws}
		var raw []byte
		var hasRaw bool
		var err error
		c.Eval()
		if v := safely(c, f.name, func() { raw, hasRaw, err = f.f(w) }); v != nil {
			return v
		}
		c.C["probe.d4_checked"]++
		// judged on what the sink ACCEPTED: exactly the reference bytes when nothing went wrong;
		// with a short-writing or failing sink a prefix of them (a writer that stops) or all of
		// them (a writer that correctly retries the rest) - never anything else, never a byte twice
		if !w.Failed {
			if !bytes.Equal(w.Got, ref.out) {
				return &Violation{"C16.d4-writer/" + f.name, fmt.Sprintf("%s wrote %q but %s returns %q", f.name, clip(string(w.Got), 300), f.ref, clip(string(ref.out), 300))}
			}
			if err != nil {
				return &Violation{"C16.d4-writer-error/" + f.name, fmt.Sprintf("%s returned %v although the sink accepted everything", f.name, err)}
			}
		} else if !bytes.HasPrefix(ref.out, w.Got) {
			return &Violation{"C16.d4-writer/" + f.name, fmt.Sprintf("%s made a short-writing/failing sink accept %q; not a prefix of %q", f.name, clip(string(w.Got), 300), clip(string(ref.out), 300))}
		}
		if hasRaw && !bytes.Equal(raw, ref.out) {
			return &Violation{"C16.d4-raw/" + f.name, fmt.Sprintf("%s returned %q but %s returns %q", f.name, clip(string(raw), 300), f.ref, clip(string(ref.out), 300))}
		}
	}
	return nil
}

// runC16Maps: D5 - Maps string and file forms are the concatenation of the per-Map encodings.
func runC16Maps(c *Ctx, pols []*iterPolicy, prefix, indent string) *Violation {
	t := c.T
	n := 1 + t.Small(4)
	if t.Draw(8) == 7 {
		n = 5 + t.Small(44) // now and then a long list (anything sized by a small constant overflows)
		c.C["probe.long_maps_lists"]++
	}
	var mvs mxj.Maps
	for i := 0; i < n; i++ {
		var m mxj.Map
		if t.Draw(2) == 0 {
			m = genXMLShapedMap(t, 0, true)
		} else {
			doc := genXMLDoc(t, XMLOpts{MaxKids: 4})
			var err error
			if v := safely(c, "gen", func() { m, err = mxj.NewMapXml([]byte(doc)) }); v != nil || err != nil {
				continue
			}
		}
		mvs = append(mvs, m)
	}
	if len(mvs) == 0 {
		return nil
	}
	c.Put("maps", Canon([]interface{}{len(mvs)}))
	type sform struct {
		name string
		all  func() (string, error)
		one  func(m mxj.Map) ([]byte, error)
		sep  string
	}
	forms := []sform{
		{"XmlString", func() (string, error) { return mvs.XmlString() }, func(m mxj.Map) ([]byte, error) { return m.Xml() }, ""},
		{"XmlStringIndent", func() (string, error) { return mvs.XmlStringIndent(prefix, indent) }, func(m mxj.Map) ([]byte, error) { return m.XmlIndent(prefix, indent) }, ""},
		{"JsonString", func() (string, error) { return mvs.JsonString() }, func(m mxj.Map) ([]byte, error) { return m.Json() }, ""},
		{"JsonString(safe)", func() (string, error) { return mvs.JsonString(true) }, func(m mxj.Map) ([]byte, error) { return m.Json(true) }, ""},
		{"JsonStringIndent", func() (string, error) { return mvs.JsonStringIndent(prefix, indent) }, func(m mxj.Map) ([]byte, error) { return m.JsonIndent(prefix, indent) }, "\n"},
		{"JsonStringIndent(safe)", func() (string, error) { return mvs.JsonStringIndent(prefix, indent, true) }, func(m mxj.Map) ([]byte, error) { return m.JsonIndent(prefix, indent, true) }, "\n"},
	}
	var entries []encEntry
	for _, f := range forms {
		f := f
		entries = append(entries, encEntry{"Maps." + f.name, func() ([]byte, error) { s, e := f.all(); return []byte(s), e }})
	}
	outs, v := d1(c, entries, pols)
	if v != nil {
		return v
	}
	for _, f := range forms {
		got := outs["Maps."+f.name]
		var want []byte
		var werr error
		for i, m := range mvs {
			var b []byte
			var e error
			if v := safely(c, f.name+"/single", func() { b, e = f.one(m) }); v != nil {
				return v
			}
			if e != nil {
				werr = e
				break
			}
			if i > 0 {
				want = append(want, f.sep...)
			}
			want = append(want, b...)
		}
		c.C["probe.d5_checked"]++
		if werr != nil || got.err != nil {
			if (werr == nil) != (got.err == nil) {
				return &Violation{"C16.d5-error/" + f.name, fmt.Sprintf("Maps.%s err=%v but encoding the Maps one by one gives err=%v", f.name, got.err, werr)}
			}
			continue
		}
		if !bytes.Equal(got.out, want) {
			return &Violation{"C16.d5-concat/" + f.name, fmt.Sprintf("Maps.%s is not the concatenation of the per-Map encodings:\n got:  %q\n want: %q", f.name, clip(string(got.out), 400), clip(string(want), 400))}
		}
	}
	// file forms leave exactly the string form's bytes on the disk
	d := NewSimDisk(c)
	c.disk = d
	type fform struct {
		name, ref string
		f         func() error
	}
	for _, f := range []fform{
		{"XmlFile", "XmlString", func() error { return mvs.XmlFile("sim/f") }},
		{"XmlFileIndent", "XmlStringIndent", func() error { return mvs.XmlFileIndent("sim/f", prefix, indent) }},
		{"JsonFile", "JsonString", func() error { return mvs.JsonFile("sim/f") }},
		{"JsonFile(safe)", "JsonString(safe)", func() error { return mvs.JsonFile("sim/f", true) }},
		{"JsonFileIndent", "JsonStringIndent", func() error { return mvs.JsonFileIndent("sim/f", prefix, indent) }},
		{"JsonFileIndent(safe)", "JsonStringIndent(safe)", func() error { return mvs.JsonFileIndent("sim/f", prefix, indent, true) }},
	} {
		ref := outs["Maps."+f.ref]
		if ref.err != nil {
			continue
		}
		// the path already holds a longer, older file: the writers must truncate it
		d.Set("sim/f", append(append([]byte("<stale>"), ref.out...), " stale tail {\"k\":1}</stale>"...))
		var err error
		c.Eval()
		if v := safely(c, f.name, func() { err = f.f() }); v != nil {
			return v
		}
		c.C["probe.d4_file_checked"]++
		if err != nil {
			return &Violation{"C16.d4-file-error/" + f.name, fmt.Sprintf("Maps.%s returned %v", f.name, err)}
		}
		if onDisk, _ := d.Get("sim/f"); !bytes.Equal(onDisk, ref.out) {
			return &Violation{"C16.d4-file/" + f.name, fmt.Sprintf("Maps.%s left %q on disk but Maps.%s returns %q", f.name, clip(string(onDisk), 300), f.ref, clip(string(ref.out), 300))}
		}
	}
	if c.C["map_orders_imposed"] > 0 {
		c.Distinct("nontrivial", HashStr(string(outs["Maps.XmlString"].out)).Int(len(mvs)))
	}
	if c.sample == nil {
		c.sample = map[string]interface{}{"kind": "Maps string/file forms", "maps": len(mvs), "XmlString": clip(string(outs["Maps.XmlString"].out), 200)}
	}
	return nil
}

// runC16Any: AnyXml / AnyXmlIndent on non-map values.
func runC16Any(c *Ctx, pols []*iterPolicy, prefix, indent string) *Violation {
	t := c.T
	var v interface{}
	switch t.Draw(3) {
	case 0:
		n := 1 + t.Small(4)
		l := make([]interface{}, 0, n)
		for i := 0; i < n; i++ {
			switch t.Draw(3) {
			case 0:
				l = append(l, genScalar(t))
			default:
				mm := genXMLShapedMap(t, 1, false)
				if len(mm) == 1 {
					// a single-entry member is encoded under its own key: keep it an element key
					for k := range mm {
						if strings.HasPrefix(k, "-") || k == "#text" {
							mm["a"] = "v"
						}
					}
				}
				l = append(l, mm)
			}
		}
		v = l
	case 1:
		v = genScalar(t)
	case 2:
		v = map[string]interface{}(genXMLShapedMap(t, 0, true))
	}
	c.Put("value", Canon(v))
	entries := []encEntry{
		{"AnyXml", func() ([]byte, error) { return mxj.AnyXml(v) }},
		{"AnyXmlIndent", func() ([]byte, error) { return mxj.AnyXmlIndent(v, prefix, indent) }},
		{"AnyXml(tags)", func() ([]byte, error) { return mxj.AnyXml(v, "top", "el") }},
		{"AnyXmlIndent(tags)", func() ([]byte, error) { return mxj.AnyXmlIndent(v, prefix, indent, "top", "el") }},
	}
	outs, vv := d1(c, entries, pols)
	if vv != nil {
		return vv
	}
	for _, pr := range [][2]string{{"AnyXml", "AnyXmlIndent"}, {"AnyXml(tags)", "AnyXmlIndent(tags)"}} {
		a, b := outs[pr[0]], outs[pr[1]]
		if a.err != nil || b.err != nil {
			continue
		}
		ta, _, ea := xmlTokens(a.out)
		tb, _, eb := xmlTokens(b.out)
		if ea != nil && eb != nil {
			c.C["probe.d23_out_of_domain"]++
			continue
		}
		if ea != nil || eb != nil {
			return &Violation{"C16.d3-wellformed/" + pr[0], fmt.Sprintf("only one of the compact/indented forms tokenises:\n %s: %v %q\n %s: %v %q", pr[0], ea, clip(string(a.out), 300), pr[1], eb, clip(string(b.out), 300))}
		}
		c.C["probe.d3_checked"]++
		if strings.Join(ta, "\x00") != strings.Join(tb, "\x00") {
			return &Violation{"C16.d3-indent-differs/" + pr[0], fmt.Sprintf("indented and compact output differ in more than inter-element white space:\n %s: %q\n %s: %q", pr[0], clip(string(a.out), 400), pr[1], clip(string(b.out), 400))}
		}
	}
	if c.C["map_orders_imposed"] > 0 {
		c.Distinct("nontrivial", HashStr(Canon(v)).Int(7))
	}
	return nil
}

func init() {
	register(&Property{
		ID:    "C16",
		Level: "exploration",
		Cases: func(tier string) int {
			if tier == "thorough" {
				return 5000000
			}
			return 300000
		},
		Run:  runC16,
		Rule: "each case = one seeded value (Map decoded from generated XML, JSON-shaped Map with XML-name keys incl. attribute/text entries, nulls, nested and empty lists, MapSeq decoded from a sequence document, list of 1..4 Maps, or an AnyXml value) x drawn prefix/indent x K iteration policies (ascending, descending, rotations, seeded shuffles; K=8 quick, 24 thorough) imposed on EVERY range-over-map inside mxj through the generated MapIter seam; every encoder entry point is run under every policy and twice under the first (D1), outputs are tokenised for key order (D2) and compact-vs-indent token equality (D3), writer forms run against a simulated sink that accepts all / short-writes / fails at a drawn byte (D4), Maps string and simulated-disk file forms are compared with the concatenation of per-Map encodings (D5). Non-trivial = a non-ascending order was imposed on at least one map range while encoding; distinct = distinct (value, policy set).",
		Assumptions: []string{
			"the simulated iteration order is a legal refinement of Go's range-over-map semantics (keys snapshotted, an entry deleted before it is reached is skipped)",
			"native (runtime-randomised) order itself is not used, so that every explored order is replayable; the seeded policies stand in for it",
			"D2/D3 are judged only when the output tokenises with encoding/xml (keys that are XML names); when neither form tokenises the case is counted under probe d23_out_of_domain",
			"whether a sink error is propagated is not judged",
		},
		Components: map[string][]string{
			"real": {"all Map/MapSeq/Maps/AnyXml encoders and writer/file wrappers", "encoding/xml", "encoding/json"},
			"stub": {"order produced by range over a map (MapIter)", "io.Writer endpoint (SimWriter)", "os.Create (SimDisk)"},
		},
	})
}
