package main

import (
	"bytes"
	"encoding/gob"
	"encoding/json"
	"fmt"
	"os"
	"strings"

	mxj "github.com/clbanning/mxj/v2"
)

func init() {
	// what a user of Map.Gob must do for nested values (cf. gob_test.go)
	gob.Register(map[string]interface{}{})
	gob.Register([]interface{}{})
	gob.Register(json.Number(""))
}

var indentStrs = []string{"", " ", "  ", "\t", "    "}

type fileCase struct {
	json   bool
	indent bool
	prefix string
	ind    string
	raw    bool
	maps   mxj.Maps
	enc    [][]byte      // per-Map encoding
	expect []interface{} // what each document must read back as
	file   []byte        // intended file content
	ends   []int         // b_i: end offset of document i in file
	empty  []bool        // document i is the empty object {} (skipped by the readers: known finding)
	big    bool          // a file of several KB (block-boundary effects)
	name   string
}

func (fc *fileCase) tag() string {
	t := "xml"
	if fc.json {
		t = "json"
	}
	if fc.indent {
		t += "-indent"
	}
	if fc.raw {
		t += "/raw"
	}
	return t
}

func (fc *fileCase) write(c *Ctx) (err error, v *Violation) {
	v = safely(c, "write/"+fc.tag(), func() {
		switch {
		case fc.json && fc.indent:
			err = fc.maps.JsonFileIndent(fc.name, fc.prefix, fc.ind)
		case fc.json:
			err = fc.maps.JsonFile(fc.name)
		case fc.indent:
			err = fc.maps.XmlFileIndent(fc.name, fc.prefix, fc.ind)
		default:
			err = fc.maps.XmlFile(fc.name)
		}
	})
	return
}

// read returns the Maps, the raw values (Raw readers) and the error.
func (fc *fileCase) read(c *Ctx) (ms []interface{}, raws [][]byte, isNil bool, err error, v *Violation) {
	v = safely(c, "read/"+fc.tag(), func() {
		switch {
		case fc.json && fc.raw:
			var r []mxj.MapRaw
			r, err = mxj.NewMapsFromJsonFileRaw(fc.name)
			isNil = r == nil
			for _, x := range r {
				ms = append(ms, x.M)
				raws = append(raws, x.R)
			}
		case fc.json:
			var r mxj.Maps
			r, err = mxj.NewMapsFromJsonFile(fc.name)
			isNil = r == nil
			for _, x := range r {
				ms = append(ms, x)
			}
		case fc.raw:
			var r []mxj.MapRaw
			r, err = mxj.NewMapsFromXmlFileRaw(fc.name)
			isNil = r == nil
			for _, x := range r {
				ms = append(ms, x.M)
				raws = append(raws, x.R)
			}
		default:
			var r mxj.Maps
			r, err = mxj.NewMapsFromXmlFile(fc.name)
			isNil = r == nil
			for _, x := range r {
				ms = append(ms, x)
			}
		}
	})
	return
}

func genFileCase(c *Ctx) (*fileCase, *Violation) {
	t := c.T
	fc := &fileCase{name: "sim/maps.dat"}
	fc.json = t.Draw(2) == 1
	fc.indent = t.Draw(2) == 1
	fc.raw = t.Draw(2) == 1
	if fc.indent {
		fc.prefix = indentStrs[t.Small(len(indentStrs))]
		fc.ind = indentStrs[t.Draw(len(indentStrs))]
	}
	n := 1 + t.Small(5)
	if t.Draw(10) == 9 {
		n = 6 + t.Small(12) // now and then a long list
		c.C["probe.long_maps_lists"]++
	}
	if !fc.json {
		mxj.XMLEscapeChars(true)
	}
	// now and then a file of several KB whose text is dense in multi-byte characters: document
	// and character boundaries then fall on every offset, including multiples of 512 and 4096
	bigEvery := 200
	if c.Tier == "thorough" || diskRealMode {
		bigEvery = 40 // (the real-file mode runs a twelfth of the cases)
	}
	fc.big = t.Draw(bigEvery) == bigEvery-1
	if fc.big {
		n = 1 + t.Draw(3)
		c.C["probe.big_files"]++
	}
	bigText := func() string {
		var b strings.Builder
		target := 1500 + t.Draw(6000)
		sub := uint64(t.Draw(1 << 30))
		for i := 0; b.Len() < target; i++ {
			sub = splitmix(sub)
			b.WriteString([]string{"é", "☃", "a", "é☃", "ü", "€", "b c", "𝄞"}[sub%8])
		}
		return b.String()
	}
	for i := 0; i < n; i++ {
		var m mxj.Map
		var err error
		var doc string
		if fc.big {
			if fc.json {
				doc = `{"t":` + jsonQuote(bigText()) + `,"u":[` + jsonQuote(bigText()) + `,1],"k":{"a":"}{"}}`
				if v := safely(c, "gen-decode", func() { m, err = mxj.NewMapJson([]byte(doc)) }); v != nil {
					return nil, nil
				}
			} else {
				doc = "<big><t>" + bigText() + "</t><u k=\"v\">" + bigText() + "</u><e/></big>"
				if v := safely(c, "gen-decode", func() { m, err = mxj.NewMapXml([]byte(doc)) }); v != nil {
					return nil, nil
				}
			}
		} else if fc.json {
			doc = genJSONDoc(t, JSONOpts{WS: t.Draw(3) == 2, EmptyTop: true})
			if v := safely(c, "gen-decode", func() { m, err = mxj.NewMapJson([]byte(doc)) }); v != nil {
				return nil, nil
			}
		} else {
			doc = genXMLDoc(t, XMLOpts{Mixed: false, MaxDepth: 3})
			if v := safely(c, "gen-decode", func() { m, err = mxj.NewMapXml([]byte(doc)) }); v != nil {
				return nil, nil
			}
		}
		if err != nil || (len(m) == 0 && !fc.json) {
			c.C["probe.gen_rejected"]++
			continue
		}
		var enc []byte
		if v := safely(c, "gen-encode", func() {
			switch {
			case fc.json && fc.indent:
				enc, err = m.JsonIndent(fc.prefix, fc.ind)
			case fc.json:
				enc, err = m.Json()
			case fc.indent:
				enc, err = m.XmlIndent(fc.prefix, fc.ind)
			default:
				enc, err = m.Xml()
			}
		}); v != nil || err != nil {
			c.C["probe.gen_rejected"]++
			continue
		}
		var exp interface{} = m
		if !fc.json {
			var e2 mxj.Map
			if v := safely(c, "gen-redecode", func() { e2, err = mxj.NewMapXml(enc) }); v != nil || err != nil || len(e2) == 0 {
				c.C["probe.gen_rejected"]++
				continue
			}
			exp = e2
		}
		fc.maps = append(fc.maps, m)
		fc.enc = append(fc.enc, enc)
		fc.expect = append(fc.expect, exp)
		fc.empty = append(fc.empty, len(m) == 0)
	}
	if len(fc.maps) == 0 {
		return nil, nil
	}
	sep := ""
	if fc.json && fc.indent {
		sep = "\n"
	}
	var f []byte
	for i, e := range fc.enc {
		if i > 0 {
			f = append(f, sep...)
		}
		f = append(f, e...)
		fc.ends = append(fc.ends, len(f))
	}
	fc.file = f
	return fc, nil
}

// checkPrefix verifies that got[0:k] equal the expected documents.
// live returns the indexes, among the first k documents, of those the readers
// return: all of them, minus empty objects while that known finding is open.
func (fc *fileCase) live(c *Ctx, k int, got []interface{}) []int {
	var l, all []int
	skipped := false
	for i := 0; i < k; i++ {
		all = append(all, i)
		if fc.empty[i] {
			skipped = true
			continue
		}
		l = append(l, i)
	}
	if !skipped {
		return all
	}
	// a tree that returns the empty Maps too is right (that is what the property says); a tree
	// that drops exactly them shows the known finding; anything else is judged against "all"
	keepsEmpty := len(got) >= len(all)
	if keepsEmpty {
		for j, i := range all {
			if mm, ok := got[j].(mxj.Map); fc.empty[i] && (!ok || mm == nil || len(mm) != 0) {
				keepsEmpty = false
			}
		}
	}
	if keepsEmpty {
		return all
	}
	if c.KnownHit("C19-empty-object-skipped", "a {} document in the file") {
		return l
	}
	return all
}

func (fc *fileCase) checkPrefix(c *Ctx, clause string, got []interface{}, raws [][]byte, k int) *Violation {
	lv := fc.live(c, k, got)
	if len(got) < len(lv) {
		return &Violation{clause + "-lost/" + fc.tag(), fmt.Sprintf("%d Maps returned, but %d documents are intact in the file", len(got), len(lv))}
	}
	for j, i := range lv {
		if Canon(asIface(got[j])) != Canon(fc.expect[i]) {
			return &Violation{clause + "-map/" + fc.tag(), fmt.Sprintf("Map %d read back differs:\n read:     %s\n expected: %s", j+1, clip(Canon(got[j]), 400), clip(Canon(fc.expect[i]), 400))}
		}
		if fc.raw {
			if j >= len(raws) {
				return &Violation{clause + "-raw/" + fc.tag(), "raw value missing"}
			}
			if !bytes.Contains(raws[j], fc.enc[i]) {
				if fc.json && bytes.Equal(raws[j], compactJSON(fc.enc[i])) && c.KnownHit("C19-json-raw-compacted", fmt.Sprintf("raw %q for document %q", clip(string(raws[j]), 60), clip(string(fc.enc[i]), 60))) {
					continue
				}
				return &Violation{clause + "-raw/" + fc.tag(), fmt.Sprintf("raw value %d does not contain the document text:\n raw: %q\n doc: %q", j+1, clip(string(raws[j]), 300), clip(string(fc.enc[i]), 300))}
			}
		}
	}
	return nil
}

func intact(ends []int, off int) int {
	k := 0
	for _, e := range ends {
		if e <= off {
			k++
		}
	}
	return k
}

func runC19(c *Ctx) *Violation {
	t := c.T
	top := t.Draw(8)
	if top == 7 {
		return runC19Gob(c)
	}
	fc, v := genFileCase(c)
	if v != nil {
		return v
	}
	if fc == nil {
		return nil
	}
	d := NewSimDisk(c)
	c.disk = d
	c.Put("format", fc.tag())
	c.Put("intended_file", string(fc.file))
	c.Put("document_ends", fmt.Sprint(fc.ends))
	L := len(fc.file)

	// ---- F1: fault-free write, legal-but-unusual delivery on read
	c.Eval()
	if t.Draw(2) == 1 {
		// the path already holds an older, longer file: the writers must truncate it
		old := append(append([]byte(nil), fc.file...), fc.file...)
		old = append(old, " <stale>left over</stale> {\"stale\":true}"...)
		d.Set(fc.name, old)
		c.C["probe.preexisting_longer_file"]++
		c.Put("preexisting_file_bytes", len(old))
	}
	werr, v := fc.write(c)
	if v != nil {
		return v
	}
	if werr != nil {
		return &Violation{"C19.f1-write-error/" + fc.tag(), fmt.Sprintf("file writer returned %v", werr)}
	}
	if onDisk, _ := d.Get(fc.name); !bytes.Equal(onDisk, fc.file) {
		return &Violation{"C19.f1-file-content/" + fc.tag(), fmt.Sprintf("file content is not the concatenation of the per-Map encodings:\n file: %q\n want: %q", clip(string(onDisk), 300), clip(string(fc.file), 300))}
	}
	sch := DrawReadSched(t, L, false)
	sch.ByteReader = false
	d.ReadSched[fc.name] = sch
	c.Put("read_schedule", sch.String())
	got, raws, _, rerr, v := fc.read(c)
	if v != nil {
		return v
	}
	c.Event("f1 read n=%d err=%v", len(got), rerr)
	c.C["probe.f1_checked"]++
	if rerr != nil {
		return &Violation{"C19.f1-read-error/" + fc.tag(), fmt.Sprintf("reading back an intact file returned %v (%d Maps)", rerr, len(got))}
	}
	if want := len(fc.live(c, len(fc.maps), got)); len(got) != want {
		return &Violation{"C19.f1-count/" + fc.tag(), fmt.Sprintf("%d Maps written, %d read back", len(fc.maps), len(got))}
	}
	if v := fc.checkPrefix(c, "C19.f1", got, raws, len(fc.maps)); v != nil {
		return v
	}
	if r := d.Readers[fc.name]; r != nil && (r.ZeroDelivered > 0 || r.EOFWithDataDelivered) {
		c.C["fault.file_unusual_delivery"]++
	}
	if d.Opens != d.Closes {
		c.C["probe.file_not_closed"]++
	}
	if c.sample == nil {
		c.sample = map[string]interface{}{"format": fc.tag(), "file": clip(string(fc.file), 240), "document_ends": fmt.Sprint(fc.ends)}
	}
	d.ReadSched[fc.name] = nil

	// ---- one fault dimension per case
	switch fmode := t.Draw(6); fmode {
	case 0, 1: // F2: crash during the write at every byte (enumerated)
		pts := make([]int, 0, L+1)
		if L <= 400 || c.Tier == "thorough" && L <= 1500 {
			for i := 0; i <= L; i++ {
				pts = append(pts, i)
			}
			c.C["probe.f2_files_fully_enumerated"]++
		} else {
			for i := 0; i < 48; i++ {
				pts = append(pts, t.Draw(L+1))
			}
			// block boundaries and document boundaries, one byte either side
			for b := 512; b <= L; b += 512 {
				if b%4096 == 0 || t.Draw(4) == 0 {
					pts = append(pts, b-1, b)
					if b+1 <= L {
						pts = append(pts, b+1)
					}
				}
			}
			for _, e := range fc.ends {
				pts = append(pts, e-1, e)
				if e+1 <= L {
					pts = append(pts, e+1)
				}
			}
		}
		reports := fmode == 1 && !d.Real() // a write error cannot be injected into a real *os.File
		for _, tear := range pts {
			c.Eval()
			d.TearAt, d.TearReports = tear, reports
			if _, v := fc.write(c); v != nil {
				return v
			}
			onDisk, _ := d.Get(fc.name) // (real-file mode: this is where the crash cuts the file)
			d.TearAt = -1
			if !bytes.Equal(onDisk, fc.file[:tear]) {
				// the writer did not write the intended content (F1 found it intact just before): report it
				return &Violation{"C19.f2-file-content/" + fc.tag(), fmt.Sprintf("rewriting the same Maps left %q, not a prefix of the intended content", clip(string(onDisk), 200))}
			}
			got, raws, _, rerr, v := fc.read(c)
			if v != nil {
				c.Put("torn_at", tear)
				return v
			}
			k := intact(fc.ends, tear)
			start := 0
			if k > 0 {
				start = fc.ends[k-1]
			}
			inDoc := !isBlank(fc.file[start:tear])
			c.Event("f2 tear=%d n=%d err=%v", tear, len(got), rerr)
			c.C["probe.f2_checked"]++
			c.Distinct("nontrivial", HashStr(string(fc.file)).Int(tear).Int(1))
			var vv *Violation
			if len(got) != len(fc.live(c, k, got)) {
				vv = &Violation{"C19.f2-count/" + fc.tag(), fmt.Sprintf("file torn at byte %d of %d: %d documents are intact but %d Maps were returned (err=%v)", tear, L, k, len(got), rerr)}
			} else if vv = fc.checkPrefix(c, "C19.f2", got, raws, k); vv == nil {
				if inDoc && rerr == nil {
					vv = &Violation{"C19.f2-no-error/" + fc.tag(), fmt.Sprintf("file torn at byte %d inside document %d, but the reader reported no error", tear, k+1)}
				} else if !inDoc && rerr != nil {
					vv = &Violation{"C19.f2-spurious-error/" + fc.tag(), fmt.Sprintf("file torn at byte %d exactly after document %d, but the reader reported %v", tear, k, rerr)}
				}
			}
			if vv != nil {
				c.Put("torn_at", tear)
				c.Put("durable_prefix", string(fc.file[:tear]))
				return vv
			}
		}
	case 2: // F3: stored byte flipped at rest
		if L == 0 {
			return nil
		}
		c.Eval()
		off := t.Draw(L)
		nasty := []byte("<>/&;\"'=!?-[]{}\\ \x00\xff,:a")
		nb := nasty[t.Draw(len(nasty))]
		if nb == fc.file[off] {
			nb ^= 0x21
		}
		cor := append([]byte(nil), fc.file...)
		cor[off] = nb
		d.Set(fc.name, cor)
		c.C["fault.stored_byte_flipped"]++
		c.Put("flipped", fmt.Sprintf("offset %d: %q -> %q", off, fc.file[off], nb))
		got, raws, _, rerr, v := fc.read(c)
		if v != nil {
			return v
		}
		c.Event("f3 flip@%d n=%d err=%v", off, len(got), rerr)
		c.C["probe.f3_checked"]++
		c.Distinct("nontrivial", HashStr(string(cor)).Int(2))
		if v := fc.checkPrefix(c, "C19.f3-flip", got, raws, intact(fc.ends, off)); v != nil {
			return v
		}
	case 3: // F3: EIO while reading
		if d.Real() {
			c.C["probe.skipped_in_real_disk_mode"]++
			return nil
		}
		c.Eval()
		off := t.Draw(L + 1)
		d.ReadSched[fc.name] = &ReadSched{ErrAt: off, CutAt: -1, Chunk: t.Draw(3), ChunkSeed: 7}
		c.Put("eio_at", off)
		got, raws, _, rerr, v := fc.read(c)
		if v != nil {
			return v
		}
		c.Event("f3 eio@%d n=%d err=%v", off, len(got), rerr)
		c.C["probe.f3_eio_checked"]++
		if r := d.Readers[fc.name]; r != nil && r.ErrDelivered {
			c.C["fault.file_read_error"]++
			c.Distinct("nontrivial", HashStr(string(fc.file)).Int(off).Int(3))
			if rerr == nil {
				return &Violation{"C19.f3-eio-swallowed/" + fc.tag(), fmt.Sprintf("read error injected at offset %d of %d was not reported (%d Maps returned)", off, L, len(got))}
			}
		}
		k := intact(fc.ends, off)
		if len(got) > len(fc.live(c, k, got)) {
			// documents past the error cannot have been read
			return &Violation{"C19.f3-eio-extra/" + fc.tag(), fmt.Sprintf("read error at offset %d: %d Maps returned but only %d documents precede the error", off, len(got), k)}
		}
		if v := fc.checkPrefix(c, "C19.f3-eio", got, raws, k); v != nil {
			return v
		}
	case 4: // F4: stat / open failure, non-regular file
		c.Eval()
		which := t.Draw(4)
		switch which {
		case 0:
			d.StatErr[fc.name] = os.ErrPermission
		case 1:
			d.OpenErr[fc.name] = os.ErrPermission
		case 2:
			d.NonRegular[fc.name] = true
		case 3:
			d.Del(fc.name)
		}
		c.Put("open_fault", []string{"stat error", "open error", "non-regular file", "file missing"}[which])
		got, _, isNil, rerr, v := fc.read(c)
		if v != nil {
			return v
		}
		c.Event("f4 %d n=%d err=%v", which, len(got), rerr)
		c.C["probe.f4_checked"]++
		c.Distinct("nontrivial", HashStr(fc.tag()).Int(which).Int(4))
		if rerr == nil || len(got) != 0 || !isNil {
			return &Violation{"C19.f4/" + fc.tag(), fmt.Sprintf("unreadable file (%s): got %d Maps (nil result: %v), err=%v; want nil and an error", c.R["open_fault"], len(got), isNil, rerr)}
		}
	case 5: // create failure on write: error must surface, nothing else judged
		c.Eval()
		d.CreateErr[fc.name] = os.ErrPermission
		d.Set(fc.name, []byte("<old>content</old>"))
		werr, v := fc.write(c)
		if v != nil {
			return v
		}
		c.C["probe.create_error_checked"]++
		c.Distinct("nontrivial", HashStr(fc.tag()).Int(5))
		if onDisk, _ := d.Get(fc.name); werr == nil && !bytes.Equal(onDisk, fc.file) {
			// (a writer that reached the intended content some other way, e.g. temp file + rename, is fine)
			return &Violation{"C19.create-error-swallowed/" + fc.tag(), "the target could not be created, the file does not hold the Maps, and the file writer returned nil"}
		}
	}
	return nil
}

// runC19Gob: F5 - Gob/NewMapGob and Copy round trips, gob truncation.
func runC19Gob(c *Ctx) *Violation {
	t := c.T
	if t.Draw(3) == 2 {
		// numbers are decoded as json.Number: Copy and gob must keep their type and exact text
		mxj.JsonUseNumber = true
		c.Put("JsonUseNumber", true)
		c.C["probe.f5_json_number_cases"]++
	}
	single := t.Draw(2) == 1 // single-key objects: the gob bytes are the same on every run
	doc := genJSONDoc(t, JSONOpts{WS: false, SingleKey: single, MaxDepth: 4})
	var m mxj.Map
	var err error
	if v := safely(c, "gen-decode", func() { m, err = mxj.NewMapJson([]byte(doc)) }); v != nil || err != nil {
		return nil
	}
	c.Put("map", Canon(m))
	c.Eval()
	before := Canon(m)
	var cp mxj.Map
	if v := safely(c, "Copy", func() { cp, err = m.Copy() }); v != nil {
		return v
	}
	c.C["probe.f5_copy_checked"]++
	if err != nil {
		return &Violation{"C19.f5-copy-error", fmt.Sprintf("Copy of %s returned %v", clip(before, 300), err)}
	}
	if Canon(cp) != before {
		return &Violation{"C19.f5-copy", fmt.Sprintf("Copy differs:\n copy: %s\n orig: %s", clip(Canon(cp), 400), clip(before, 400))}
	}
	var g []byte
	if v := safely(c, "Gob", func() { g, err = m.Gob() }); v != nil {
		return v
	}
	if err != nil {
		return &Violation{"C19.f5-gob-error", fmt.Sprintf("Gob of %s returned %v", clip(before, 300), err)}
	}
	var back mxj.Map
	if v := safely(c, "NewMapGob", func() { back, err = mxj.NewMapGob(g) }); v != nil {
		return v
	}
	c.C["probe.f5_gob_checked"]++
	if err != nil {
		return &Violation{"C19.f5-gob-decode-error", fmt.Sprintf("NewMapGob(Gob(m)) returned %v", err)}
	}
	if got := Canon(back); got != before {
		// known finding: encoding/gob does not transmit empty containers, they come back nil
		norm := strings.NewReplacer("nil-list", "[]", "nil-map", "{}").Replace(got)
		if norm != before || !c.KnownHit("C19-gob-empty-container-becomes-nil", fmt.Sprintf("%s came back as %s", clip(before, 80), clip(got, 80))) {
			return &Violation{"C19.f5-gob", fmt.Sprintf("gob round trip differs:\n back: %s\n orig: %s", clip(got, 400), clip(before, 400))}
		}
	}
	c.Event("f5 %x", uint64(Digest(back)))
	// every truncation of the gob bytes: an error, never a panic.  Only for values
	// whose gob encoding does not depend on encoding/gob's map walk, so that the
	// failing cut is replayable.
	for cut := 1; single && cut < len(g); cut++ {
		c.Eval()
		var e2 error
		if v := safely(c, "NewMapGob(truncated)", func() { _, e2 = mxj.NewMapGob(g[:cut]) }); v != nil {
			c.Put("gob_cut", cut)
			return v
		}
		c.C["probe.f5_gob_truncations"]++
		if e2 == nil {
			c.Put("gob_cut", cut)
			return &Violation{"C19.f5-gob-truncated-accepted", fmt.Sprintf("gob value truncated to %d of %d bytes decoded without error", cut, len(g))}
		}
	}
	c.Distinct("nontrivial", HashStr(before).Int(6))
	if c.sample == nil {
		c.sample = map[string]interface{}{"kind": "gob/copy round trip + every gob truncation", "map": clip(before, 200), "gob_bytes": len(g)}
	}
	return nil
}

func init() {
	register(&Property{
		ID:    "C19",
		Level: "fault_enumeration",
		Cases: func(tier string) int {
			if tier == "thorough" {
				return 2000000
			}
			return 100000
		},
		Run:  runC19,
		Rule: "each case = seeded list of 1..5 Maps (C02 XML domain with XMLEscapeChars(true), or C06 JSON domain) x file form (compact/indent, drawn prefix/indent, Raw or not) written through the real Maps.*File writers to a simulated disk and read back under a drawn legal delivery schedule (F1), followed by one fault dimension: a crash during the write at EVERY byte offset of the file (enumerated for files <= 400 bytes; torn write reported or silently lost), a stored byte flipped at rest, EIO at a drawn offset while reading, stat/open failure, non-regular or missing file, create failure; one case in eight is a gob/Copy round trip with every truncation of the gob bytes. Non-trivial = a fault actually fired (torn write cut the file, flipped byte read, EIO delivered, open refused, gob truncated); distinct = distinct (file content, fault kind, fault position).",
		Assumptions: []string{
			"the simulated disk replaces os.Open/os.Create/os.Stat in an instrumented scratch copy; os.File semantics beyond Read/Write/Close are not modelled",
			"a crash during WriteString leaves exactly a prefix of the intended content durable (no reordering inside a single write)",
			"XML documents never decode to an empty Map; JSON lists may contain the empty object {}, which the readers skip - recorded as known finding C19-empty-object-skipped",
			"JSON Raw values are compared modulo the recorded known finding C19-json-raw-compacted",
		},
		Components: map[string][]string{
			"real": {"Maps.XmlFile/XmlFileIndent/JsonFile/JsonFileIndent", "NewMapsFrom{Xml,Json}File[Raw]", "Map.Gob/NewMapGob", "Map.Copy", "encoding/xml", "encoding/json", "encoding/gob"},
			"stub": {"os.Open/os.Create/os.Stat and the file handle (SimDisk)"},
		},
	})
	_ = strings.TrimSpace
}
