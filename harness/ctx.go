package main

import (
	"encoding/json"
	"fmt"
	"os"
	"reflect"
	"sort"
	"strings"
	"sync"
	"time"

	mxj "github.com/clbanning/mxj/v2"
	"github.com/clbanning/mxj/v2/verifsim"
)

// Ctx is the per-case simulation context: the tape, the event log, the
// counters and the human-readable rendering of the case.
type Ctx struct {
	Prop, Tier string
	T          *Tape
	Render     bool
	R          map[string]interface{}
	ev         Hash
	evList     []string
	C          map[string]int64
	sets       map[string]*DSet
	known      map[string]*KnownHit
	sample     interface{}
	Steps      int64 // yields of the whole case (statistics)
	opSteps    int64 // yields since the current guarded call began (the bound applies to one call)
	StepLimit  int64
	VirtualNs  int64

	// scheduler / iteration policy hooks owned by the property code
	yieldFn        func(site int)
	blockedFn      func()
	sch            *sched   // the C17 scheduler while its concurrent phase runs
	amb            *sched   // ambient scheduler: exists while goroutines started by the package are alive outside a C17 run
	goPanics       []string // panics that ended a goroutine started by the package
	quiet          bool     // the harness repeats a call a run-dependent number of times (gob's map walk): no steps, no scheduling, no events
	raceMsg        string   // first data race the detector found among the package's goroutines (ambient scheduler)
	deadlocked     bool     // the scheduler declared a deadlock during the guarded call in progress
	childStepLimit bool     // such a goroutine hit the step bound or gave up in a declared deadlock
	tempSeq        int
	nowTicks       int64
	randState      uint64
	mapOrderFn     func(site, n int) []int
	disk           *SimDisk
}

type stepLimit struct{}

func newCtx(prop, tier string, t *Tape, render bool) *Ctx {
	c := &Ctx{Prop: prop, Tier: tier, T: t, Render: render, ev: fnvOff, C: map[string]int64{}, sets: map[string]*DSet{}, StepLimit: 2_000_000}
	if render {
		c.R = map[string]interface{}{}
	}
	return c
}

// Event appends to the event log.  It never draws and never reads a clock.
func (c *Ctx) Event(format string, a ...interface{}) {
	if c.Render {
		s := fmt.Sprintf(format, a...)
		c.ev = c.ev.Str(s)
		if len(c.evList) < 400 {
			c.evList = append(c.evList, clip(s, 300))
		}
		return
	}
	// hashing the formatted string keeps render and non-render runs comparable
	if debugEvents {
		fmt.Fprintf(os.Stderr, "EV %s\n", clip(fmt.Sprintf(format, a...), 200))
	}
	c.ev = c.ev.Str(fmt.Sprintf(format, a...))
}

func (c *Ctx) Count(name string, n int64) { c.C[name] += n }
func (c *Ctx) Eval()                      { c.C["evaluations"]++ }

func (c *Ctx) Distinct(set string, h Hash) {
	s := c.sets[set]
	if s == nil {
		s = NewDSet()
		c.sets[set] = s
	}
	s.Add(uint64(h))
}

// Put records a rendered field (replay files, samples).
func (c *Ctx) Put(key string, v interface{}) {
	if c.Render {
		c.R[key] = v
	}
}

func (c *Ctx) merge(o *Ctx) {
	for k, v := range o.C {
		c.C[k] += v
	}
	for k, s := range o.sets {
		d := c.sets[k]
		if d == nil {
			d = NewDSet()
			c.sets[k] = d
		}
		d.Merge(s)
	}
	c.VirtualNs += o.VirtualNs
	c.C["yield_steps"] += o.Steps
}

// KnownHit records that an open known finding was observed instead of raising
// a violation.  It reports false when key is not an open finding.
func (c *Ctx) KnownHit(key, what string) bool {
	if !knownOpen[key] {
		return false
	}
	if c.known == nil {
		return true
	}
	h := c.known[key]
	if h == nil {
		h = &KnownHit{First: clip(what, 200)}
		c.known[key] = h
	}
	h.Count++
	return true
}

// ---------------------------------------------------------------- hooks

var curCtx *Ctx

var debugEvents = os.Getenv("VERIF_DEBUG_EVENTS") != ""

// Goroutines started by the instrumented package are cooperative tasks (verifsim.Go, sched.spawn):
// one runs at a time and the seeded policy decides who.  Only when the package ALSO blocks in a
// way the scheduler does not model (select, sync.Cond, timers) do its goroutines have to be real:
// the hooks and simulated endpoints can then be entered from several goroutines at once, so they
// are serialised by one mutex, the cooperative replacements are not installed, runs are no longer
// replayable bit for bit, the determinism self-check is skipped and the evidence says so.
var lockHooks bool
var hookMu sync.Mutex

func simEnter() {
	if lockHooks {
		hookMu.Lock()
	}
}

func simLeave() {
	if lockHooks {
		hookMu.Unlock()
	}
}

func initHookLocking() {
	loadFacts()
	lockHooks = facts.GoStmts > 0 && len(facts.Unmodelled) > 0
}

func installHooks(c *Ctx) {
	curCtx = c
	verifsim.H = &verifsim.Hooks{
		Yield: func(site int) {
			if c.quiet {
				return
			}
			simEnter()
			defer simLeave()
			c.Steps++
			c.opSteps++
			if c.opSteps > c.StepLimit {
				panic(stepLimit{})
			}
			if c.yieldFn != nil {
				c.yieldFn(site)
			}
		},
		Go: func(f func()) {
			s := c.sch
			if s == nil {
				if c.amb == nil {
					c.amb = newAmbient(c)
				}
				s = c.amb
			}
			s.spawn(f)
		},
		TaskID: func() int {
			if c.sch != nil && c.sch.cur != nil {
				return c.sch.cur.id
			}
			if c.amb != nil && c.amb.cur != nil {
				return c.amb.cur.id
			}
			return 0
		},
		Progress: func() {
			if c.sch != nil {
				c.sch.progress()
			} else if c.amb != nil {
				c.amb.progress()
			}
		},
		Blocked: func() {
			simEnter()
			defer simLeave()
			c.Steps++
			c.opSteps++
			if c.opSteps > c.StepLimit {
				panic(stepLimit{})
			}
			c.C["lock_contention_yields"]++
			if c.blockedFn != nil {
				c.blockedFn()
				return
			}
			// no scheduler running: a lock that cannot be taken by the only task is a self-deadlock
			panic(stepLimit{})
		},
		MapOrder: func(site, n int) []int {
			simEnter()
			defer simLeave()
			if c.mapOrderFn != nil {
				return c.mapOrderFn(site, n)
			}
			return nil
		},
		Sleep: func(d time.Duration) {
			simEnter()
			defer simLeave()
			c.VirtualNs += int64(d)
			c.C["virtual_sleeps"]++
			c.Event("sleep %d", int64(d))
		},
		Open: func(name string) (*verifsim.File, error) {
			simEnter()
			defer simLeave()
			if c.disk == nil {
				return nil, os.ErrNotExist
			}
			return c.disk.Open(name)
		},
		Create: func(name string) (*verifsim.File, error) {
			simEnter()
			defer simLeave()
			if c.disk == nil {
				return nil, os.ErrPermission
			}
			return c.disk.Create(name)
		},
		Stat: func(name string) (os.FileInfo, error) {
			simEnter()
			defer simLeave()
			if c.disk == nil {
				return nil, os.ErrNotExist
			}
			return c.disk.Stat(name)
		},
		Now: func() time.Time {
			simEnter()
			defer simLeave()
			c.nowTicks++ // every reading of the clock is later than the previous one
			return time.Unix(1_700_000_000, c.VirtualNs+c.nowTicks*1000).UTC()
		},
		Rand: func() uint64 {
			simEnter()
			defer simLeave()
			c.randState = splitmix(c.randState + 0x9E3779B97F4A7C15)
			return c.randState
		},
		TempName: func(dir, pattern string) string {
			simEnter()
			defer simLeave()
			c.tempSeq++
			if i := strings.LastIndexByte(pattern, '*'); i >= 0 {
				return fmt.Sprintf("%s/%s%06d%s", dir, pattern[:i], c.tempSeq, pattern[i+1:])
			}
			return fmt.Sprintf("%s/%s%06d", dir, pattern, c.tempSeq)
		},
		RealPath: func(op, name string) (string, error) {
			simEnter()
			defer simLeave()
			if c.disk == nil {
				return "", os.ErrNotExist
			}
			return c.disk.RealPath(op, name)
		},
		OpenFile: func(name string, flag int, perm os.FileMode) (*verifsim.File, error) {
			simEnter()
			defer simLeave()
			if c.disk == nil {
				return nil, os.ErrNotExist
			}
			return c.disk.OpenFile(name, flag)
		},
		Remove: func(name string) error {
			simEnter()
			defer simLeave()
			if c.disk == nil {
				return os.ErrNotExist
			}
			return c.disk.Remove(name)
		},
		Rename: func(o, n string) error {
			simEnter()
			defer simLeave()
			if c.disk == nil {
				return os.ErrNotExist
			}
			return c.disk.Rename(o, n)
		},
	}
	if lockHooks {
		// real goroutines, locks, Once, Pool, wait groups and channels: the package blocks in ways
		// the scheduler does not model, so its goroutines must be able to block for real
		verifsim.H.Blocked = nil
		verifsim.H.Go = nil
		verifsim.H.Progress = nil
		verifsim.H.TaskID = nil
	}
}

func uninstallHooks() {
	verifsim.H = nil
	curCtx = nil
}

// ---------------------------------------------------------------- package state

type savedVar struct {
	name    string
	ptr     reflect.Value // pointer to the package-level variable
	val     reflect.Value // deep copy of its value
	pointee reflect.Value // for pointer-typed variables: copy of what the pointer points to
}

var pristine []savedVar

// snapVar / restoreVar save and restore one package-level variable.  Maps and slices are
// deep-copied; for a pointer-typed variable (e.g. *atomic.Value) the pointer keeps its identity
// and the CONTENT it points to is saved and written back, because the package holds the pointer.
func snapVar(name string, pv reflect.Value) savedVar {
	sv := savedVar{name: name, ptr: pv}
	cp := reflect.New(pv.Elem().Type()).Elem()
	cp.Set(deepCopyValue(pv.Elem()))
	sv.val = cp
	if v := pv.Elem(); v.Kind() == reflect.Ptr && !v.IsNil() {
		pc := reflect.New(v.Elem().Type()).Elem()
		pc.Set(deepCopyValue(v.Elem()))
		sv.pointee = pc
	}
	return sv
}

func restoreVar(sv savedVar) {
	sv.ptr.Elem().Set(deepCopyValue(sv.val))
	if sv.pointee.IsValid() {
		sv.ptr.Elem().Elem().Set(deepCopyValue(sv.pointee))
	}
}

// capturePristine snapshots every package-level variable of mxj through the
// generated VerifGlobals(); resetPackageState writes the snapshot back before
// every case so that cases are independent of each other.
func capturePristine() {
	g := mxj.VerifGlobals()
	names := make([]string, 0, len(g))
	for n := range g {
		names = append(names, n)
	}
	sort.Strings(names)
	for _, n := range names {
		pv := reflect.ValueOf(g[n])
		if pv.Kind() != reflect.Ptr || n == "VerifSites" {
			continue
		}
		pristine = append(pristine, snapVar(n, pv))
	}
}

func deepCopyValue(v reflect.Value) reflect.Value {
	switch v.Kind() {
	case reflect.Slice:
		if v.IsNil() {
			return v
		}
		n := reflect.MakeSlice(v.Type(), v.Len(), v.Len())
		for i := 0; i < v.Len(); i++ {
			n.Index(i).Set(deepCopyValue(v.Index(i)))
		}
		return n
	case reflect.Array:
		n := reflect.New(v.Type()).Elem()
		for i := 0; i < v.Len(); i++ {
			n.Index(i).Set(deepCopyValue(v.Index(i)))
		}
		return n
	case reflect.Map:
		if v.IsNil() {
			return v
		}
		n := reflect.MakeMapWithSize(v.Type(), v.Len())
		it := v.MapRange()
		for it.Next() {
			n.SetMapIndex(it.Key(), deepCopyValue(it.Value()))
		}
		return n
	}
	return v
}

func resetPackageState() {
	if curCtx != nil {
		curCtx.killGoroutines() // goroutines of the package that wait for work belong to the state that goes
	}
	// sync.* variables are reset too (to their unused, start-of-process value): data
	// initialised under a sync.Once must not be reset while the Once stays "done"
	for _, s := range pristine {
		restoreVar(s)
	}
	verifsim.ResetSync()
}

func isSyncType(t reflect.Type) bool {
	return strings.HasPrefix(t.String(), "sync.") || strings.HasPrefix(t.String(), "atomic.") || strings.HasPrefix(t.String(), "*sync.")
}

// globalsDigest hashes everything VerifGlobals exposes (C17 S3, C18 diagnostic).
func globalsDigest() Hash {
	h := fnvOff
	for _, s := range pristine {
		if isSyncType(s.val.Type()) {
			continue
		}
		h = h.Str(s.name)
		h = digestValue(h, s.ptr.Elem(), 0)
	}
	return h
}

func globalsDiff() string {
	var d []string
	for _, s := range pristine {
		if isSyncType(s.val.Type()) {
			continue
		}
		if digestValue(fnvOff, s.ptr.Elem(), 0) != digestValue(fnvOff, s.val, 0) {
			d = append(d, s.name)
		}
	}
	return strings.Join(d, ",")
}

func digestValue(h Hash, v reflect.Value, depth int) Hash {
	if depth > 6 {
		return h
	}
	switch v.Kind() {
	case reflect.Bool:
		if v.Bool() {
			return h.Int(1)
		}
		return h.Int(0)
	case reflect.Int, reflect.Int8, reflect.Int16, reflect.Int32, reflect.Int64:
		return h.Int(int(v.Int()))
	case reflect.Uint, reflect.Uint8, reflect.Uint16, reflect.Uint32, reflect.Uint64, reflect.Uintptr:
		return h.Int(int(v.Uint()))
	case reflect.Float32, reflect.Float64:
		return h.Str(fmt.Sprint(v.Float()))
	case reflect.String:
		return h.Str(v.String())
	case reflect.Func, reflect.Chan, reflect.UnsafePointer:
		if v.IsNil() {
			return h.Int(0)
		}
		return h.Int(1)
	case reflect.Ptr:
		if v.IsNil() {
			return h.Int(0)
		}
		return digestValue(h.Int(1), v.Elem(), depth+1)
	case reflect.Interface:
		if v.IsNil() {
			return h.Int(0)
		}
		return digestValue(h.Str(v.Elem().Type().String()), v.Elem(), depth+1)
	case reflect.Slice:
		if v.IsNil() {
			return h.Int(0)
		}
		if v.Type().Elem().Kind() == reflect.Uint8 {
			return h.Int(2).Bytes(v.Bytes())
		}
		h = h.Int(3).Int(v.Len())
		for i := 0; i < v.Len(); i++ {
			h = digestValue(h, v.Index(i), depth+1)
		}
		return h
	case reflect.Array:
		for i := 0; i < v.Len(); i++ {
			h = digestValue(h, v.Index(i), depth+1)
		}
		return h
	case reflect.Map:
		if v.IsNil() {
			return h.Int(0)
		}
		var sum Hash
		it := v.MapRange()
		for it.Next() {
			e := digestValue(digestValue(fnvOff, it.Key(), depth+1), it.Value(), depth+1)
			sum += e * 0x9E3779B97F4A7C15
		}
		return h.Int(4).Int(v.Len()).Int(int(sum))
	case reflect.Struct:
		if isSyncType(v.Type()) {
			return h
		}
		for i := 0; i < v.NumField(); i++ {
			h = digestValue(h, v.Field(i), depth+1)
		}
		return h
	}
	return h
}

// ---------------------------------------------------------------- known findings

type knownEntry struct {
	Property string `json:"property"`
	Key      string `json:"key"`
	Status   string `json:"status"`
	Line     string `json:"line"`
}

var knownOpen = map[string]bool{}
var knownLines = map[string]string{}

func loadKnown(path string) {
	if path == "" {
		return
	}
	b, err := os.ReadFile(path)
	if err != nil {
		return
	}
	var f struct {
		Findings []knownEntry `json:"findings"`
	}
	if json.Unmarshal(b, &f) != nil {
		return
	}
	for _, e := range f.Findings {
		if e.Status == "open" {
			knownOpen[e.Key] = true
			knownLines[e.Key] = e.Line
		}
	}
}

func knownLine(key string) string {
	if l := knownLines[key]; l != "" {
		return l
	}
	return key
}

// ---------------------------------------------------------------- evidence

func writeEvidence(path string, p *Property, tier string, seed uint64, cases int, counters map[string]int64,
	sets map[string]*DSet, samples []interface{}, known map[string]KnownHit, det int, virt int64,
	wall float64, nviol int, instrFile string, viol *ViolationReport) {
	if path == "" {
		return
	}
	evals := counters["evaluations"]
	if evals == 0 {
		evals = int64(cases)
	}
	cov := map[string]interface{}{
		"evaluations":                  evals,
		"distinct_nontrivial":          dcount(sets["nontrivial"]),
		"rule":                         p.Rule,
		"samples":                      samples,
		"seeded_cases":                 cases,
		"seeds_used":                   []uint64{seed},
		"runs_per_hour":                int64(float64(evals) / wall * 3600),
		"cases_per_hour":               int64(float64(cases) / wall * 3600),
		"simulated_time_ns":            virt,
		"determinism_reexecuted_cases": det,
		"components":                   p.Components,
	}
	faults := map[string]int64{}
	probes := map[string]int64{}
	other := map[string]int64{}
	for k, v := range counters {
		switch {
		case strings.HasPrefix(k, "fault."):
			faults[strings.TrimPrefix(k, "fault.")] = v
		case strings.HasPrefix(k, "probe."):
			probes[strings.TrimPrefix(k, "probe.")] = v
		case k != "evaluations":
			other[k] = v
		}
	}
	cov["faults_fired"] = faults
	cov["probes"] = probes
	cov["counters"] = other
	reach := map[string]int{}
	exactAll := true
	for k, s := range sets {
		n, exact := s.Count()
		if !exact {
			exactAll = false
		}
		if k != "nontrivial" {
			reach[k] = n
		}
	}
	if exactAll {
		cov["distinct_counting"] = "exact (hash sets)"
	} else {
		cov["distinct_counting"] = "sets larger than 150000 are counted with HyperLogLog (2^14 registers); the reported number is the estimate minus three standard errors (2.4 %), i.e. a conservative lower estimate"
	}
	cov["distinct_reach"] = reach
	if len(known) > 0 {
		cov["known_findings_hit"] = known
	}
	if instrFile != "" {
		if b, err := os.ReadFile(instrFile); err == nil {
			var s map[string]interface{}
			if json.Unmarshal(b, &s) == nil {
				delete(s, "sites")
				cov["instrumentation"] = s
			}
		}
	}
	if viol != nil {
		cov["violation"] = viol.Violation
	}
	if p.Notes != nil {
		cov["notes"] = p.Notes()
	}
	if os.Getenv("VERIF_DISKMODE") == "real" {
		cov["disk_mode"] = "real files under a private directory (the tree names *os.File explicitly, so verifsim.File cannot stand in for it): torn writes, stored-byte flips, open/stat/create failures and pre-existing files are injected; read delivery schedules, EIO and reported write errors are not"
	} else {
		cov["disk_mode"] = "in-memory simulated disk (verifsim.File)"
	}
	if len(samples) == 0 {
		cov["samples"] = []interface{}{"(no sample recorded)"}
	}
	ev := map[string]interface{}{
		"property_id": p.ID,
		"tier":        tier,
		"seed":        seed,
		"level":       p.Level,
		"coverage":    cov,
		"assumptions": p.Assumptions,
		"wall_s":      wall,
		"violations":  nviol,
	}
	os.MkdirAll(dirOf(path), 0o755)
	os.WriteFile(path, prettyJSON(ev), 0o644)
}

func dirOf(p string) string {
	if i := strings.LastIndexByte(p, '/'); i >= 0 {
		return p[:i]
	}
	return "."
}

func dcount(d *DSet) int {
	if d == nil {
		return 0
	}
	n, _ := d.Count()
	return n
}

// afterCall is called by every guard when the guarded call has returned or panicked: goroutines the
// package started run on until each has finished or waits; what went wrong inside them is returned
// (a panic there would have ended the caller's process; one that never ends is a goroutine that
// spins or a deadlock).
func (c *Ctx) afterCall() (panicMsg string, nonterm bool) {
	if c.amb != nil && c.sch == nil {
		// one call in four the goroutines are NOT given the turn before the harness goes on (it may
		// inspect a file, call again ...): a caller cannot know when a goroutine it was not told
		// about has done its work.  They run during the next call, or when it has returned.
		c.amb.calls++
		if splitmix(c.amb.pol.Seed^uint64(c.amb.calls)*0xA24BAED4963EE407)%4 == 0 && !c.childStepLimit {
			c.Event("goroutines not awaited after call %d", c.amb.calls)
		} else {
			c.amb.quiesce()
		}
	}
	if len(c.goPanics) > 0 {
		panicMsg = c.goPanics[0]
	}
	if c.raceMsg != "" && c.Prop != "C17" {
		// goroutine safety is C17's subject: elsewhere a race among the package's goroutines is counted, not judged
		c.C["data_races_seen_not_judged_by_this_check"]++
		c.raceMsg = ""
	}
	if c.raceMsg != "" && panicMsg == "" {
		// (reported like a failure of the call during which the second access happened)
		panicMsg = "DATA RACE: " + c.raceMsg
		c.raceMsg = ""
	}
	nonterm = c.childStepLimit
	c.goPanics, c.childStepLimit = nil, false
	return
}

// killGoroutines unwinds goroutines of the package that are still parked (end of a case, or the
// package state they belong to is about to be reset).
func (c *Ctx) killGoroutines() {
	if c.amb != nil {
		c.amb.killAll()
	}
}

// raceArmed: the happens-before detector (R8) is used only when every synchronisation the tree
// uses is one whose edges the runtime reports; otherwise an unreported edge could make an ordered
// pair of accesses look like a race.
func raceArmed() bool {
	return facts.AccSites > 0 && len(facts.Unmodelled) == 0 && len(facts.RaceUnmodelled) == 0 && !lockHooks
}

func armRace(report func(string)) {
	if !raceArmed() {
		return
	}
	r := verifsim.NewRaceState()
	r.Names = mxj.VerifRaceNames
	r.Report = report
	r.SiteName = siteName
	verifsim.Race = r
}

func disarmRace(c *Ctx) {
	if r := verifsim.Race; r != nil {
		c.C["race_detector_access_checks"] += r.Checks
		verifsim.Race = nil
	}
}
