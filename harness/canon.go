package main

import (
	"encoding/json"
	"fmt"
	"math"
	"sort"
	"strconv"
	"strings"

	mxj "github.com/clbanning/mxj/v2"
)

// Canon writes a type-aware canonical rendering of v: map keys sorted, every
// scalar tagged with its dynamic type.  Two values are "deeply equal" for the
// purposes of the oracles iff their Canon strings are equal.
func Canon(v interface{}) string {
	var b strings.Builder
	canonDepth = 0
	canon(&b, v)
	return b.String()
}

var canonDepth int

func canon(b *strings.Builder, v interface{}) {
	canonDepth++
	defer func() { canonDepth-- }()
	if canonDepth > 300 {
		b.WriteString("<deeper than 300 levels: cyclic?>")
		return
	}
	switch x := v.(type) {
	case nil:
		b.WriteString("nil")
	case map[string]interface{}:
		canonMap(b, x)
	case mxj.Map:
		canonMap(b, x)
	case mxj.MapSeq:
		canonMap(b, x)
	case []interface{}:
		if x == nil {
			b.WriteString("nil-list") // re-encodes as null, not []: not deeply equal to an empty list
			return
		}
		b.WriteByte('[')
		for i, e := range x {
			if i > 0 {
				b.WriteByte(',')
			}
			canon(b, e)
		}
		b.WriteByte(']')
	case string:
		b.WriteString("s")
		b.WriteString(strconv.Quote(x))
	case bool:
		if x {
			b.WriteString("b1")
		} else {
			b.WriteString("b0")
		}
	case float64:
		b.WriteString("f")
		if math.IsNaN(x) {
			b.WriteString("NaN")
		} else {
			b.WriteString(strconv.FormatFloat(x, 'g', -1, 64))
		}
	case int:
		b.WriteString("i" + strconv.Itoa(x))
	case int64:
		b.WriteString("i64:" + strconv.FormatInt(x, 10))
	case uint64:
		b.WriteString("u64:" + strconv.FormatUint(x, 10))
	case json.Number:
		b.WriteString("n" + string(x))
	case []byte:
		b.WriteString("y" + strconv.Quote(string(x)))
	case []string:
		b.WriteString("S[")
		for i, e := range x {
			if i > 0 {
				b.WriteByte(',')
			}
			b.WriteString(strconv.Quote(e))
		}
		b.WriteByte(']')
	case mxj.LeafNode:
		b.WriteString("L{" + strconv.Quote(x.Path) + ":")
		canon(b, x.Value)
		b.WriteByte('}')
	case []mxj.LeafNode:
		b.WriteString("L[")
		for i, e := range x {
			if i > 0 {
				b.WriteByte(',')
			}
			canon(b, e)
		}
		b.WriteByte(']')
	case error:
		b.WriteString("E" + strconv.Quote(x.Error()))
	default:
		fmt.Fprintf(b, "?%T:%v", v, v)
	}
}

func canonMap(b *strings.Builder, m map[string]interface{}) {
	if m == nil {
		b.WriteString("nil-map")
		return
	}
	keys := make([]string, 0, len(m))
	for k := range m {
		keys = append(keys, k)
	}
	sort.Strings(keys)
	b.WriteByte('{')
	for i, k := range keys {
		if i > 0 {
			b.WriteByte(',')
		}
		b.WriteString(strconv.Quote(k))
		b.WriteByte(':')
		canon(b, m[k])
	}
	b.WriteByte('}')
}

// fnv-1a 64
type Hash uint64

const fnvOff Hash = 14695981039346656037

func (h Hash) Bytes(p []byte) Hash {
	for _, c := range p {
		h ^= Hash(c)
		h *= 1099511628211
	}
	return h
}
func (h Hash) Str(s string) Hash {
	for i := 0; i < len(s); i++ {
		h ^= Hash(s[i])
		h *= 1099511628211
	}
	h ^= 0xff
	h *= 1099511628211
	return h
}
func (h Hash) Int(i int) Hash {
	u := uint64(i)
	for k := 0; k < 8; k++ {
		h ^= Hash(u & 0xff)
		h *= 1099511628211
		u >>= 8
	}
	return h
}

func HashStr(s string) Hash { return fnvOff.Str(s) }

// Digest is a fast structural hash (no string building) used at every yield.
func Digest(v interface{}) Hash { digestDepth = 0; digestSpare = false; return digest(fnvOff, v) }

// DigestCap also hashes the spare capacity of every list (C17 S2).
func DigestCap(v interface{}) Hash {
	digestDepth = 0
	digestSpare = true
	h := digest(fnvOff, v)
	digestSpare = false
	return h
}

var digestSpare bool

var digestDepth int

func digest(h Hash, v interface{}) Hash {
	digestDepth++
	defer func() { digestDepth-- }()
	if digestDepth > 300 {
		return h.Int(99)
	}
	switch x := v.(type) {
	case nil:
		return h.Int(1)
	case map[string]interface{}:
		return digestMap(h, x)
	case mxj.Map:
		return digestMap(h, x)
	case mxj.MapSeq:
		return digestMap(h, x)
	case []interface{}:
		h = h.Int(3).Int(len(x))
		for _, e := range x {
			h = digest(h, e)
		}
		if digestSpare && cap(x) > len(x) {
			// the spare capacity of the backing array belongs to the value's owner as well:
			// an append through an alias writes there without changing len
			for _, e := range x[len(x):cap(x)] {
				h = digest(h, e)
			}
		}
		return h
	case string:
		return h.Int(4).Str(x)
	case bool:
		if x {
			return h.Int(5)
		}
		return h.Int(6)
	case float64:
		return h.Int(7).Int(int(math.Float64bits(x)))
	case int:
		return h.Int(8).Int(x)
	case int64:
		return h.Int(9).Int(int(x))
	case uint64:
		return h.Int(10).Int(int(x))
	case json.Number:
		return h.Int(11).Str(string(x))
	case []byte:
		return h.Int(12).Bytes(x)
	default:
		return h.Int(13).Str(fmt.Sprintf("%T:%v", v, v))
	}
}

// digestMap is order independent without sorting: the per-entry hashes are
// combined with a commutative operation.
func digestMap(h Hash, m map[string]interface{}) Hash {
	if m == nil {
		return h.Int(14)
	}
	var sum, xor Hash
	for k, v := range m {
		e := digest(fnvOff.Str(k), v)
		sum += e * 0x9E3779B97F4A7C15
		xor ^= e
	}
	return h.Int(2).Int(len(m)).Int(int(sum)).Int(int(xor))
}

// DeepCopy clones maps, lists and byte slices; scalars are shared.
func DeepCopy(v interface{}) interface{} {
	switch x := v.(type) {
	case map[string]interface{}:
		if x == nil {
			return x
		}
		m := make(map[string]interface{}, len(x))
		for k, e := range x {
			m[k] = DeepCopy(e)
		}
		return m
	case mxj.Map:
		return mxj.Map(DeepCopy(map[string]interface{}(x)).(map[string]interface{}))
	case mxj.MapSeq:
		return mxj.MapSeq(DeepCopy(map[string]interface{}(x)).(map[string]interface{}))
	case []interface{}:
		if x == nil {
			return x
		}
		l := make([]interface{}, len(x))
		for i, e := range x {
			l[i] = DeepCopy(e)
		}
		return l
	case []byte:
		return append([]byte(nil), x...)
	default:
		return v
	}
}

func clip(s string, n int) string {
	if len(s) <= n {
		return s
	}
	return s[:n] + fmt.Sprintf("…(+%d)", len(s)-n)
}
