package main

import (
	"math/rand/v2"
)

// Tape is the single source of every decision a simulated run makes
// (DESIGN.md §2.2).  In generation mode it is filled from a PCG seeded with
// mix(VERIF_SEED, run index); in replay/shrink mode it is read back.  Smaller
// draws always mean simpler choices.
type Tape struct {
	rec    []uint32
	pos    int
	replay bool
	rng    *rand.Rand
}

func mix(seed uint64, run uint64) (uint64, uint64) {
	a := seed*0x9E3779B97F4A7C15 + 0xD1B54A32D192ED03
	b := run*0xBF58476D1CE4E5B9 + 0x94D049BB133111EB
	a ^= a >> 31
	b ^= b >> 29
	return a ^ (b << 1), b ^ (a >> 3) ^ 0x2545F4914F6CDD1D
}

func NewTape(seed, run uint64) *Tape {
	a, b := mix(seed, run)
	return &Tape{rng: rand.New(rand.NewPCG(a, b))}
}

func ReplayTape(rec []uint32) *Tape {
	return &Tape{rec: append([]uint32(nil), rec...), replay: true}
}

// Draw returns a value in [0,n).  n<=1 consumes nothing.
func (t *Tape) Draw(n int) int {
	if n <= 1 {
		return 0
	}
	if t.replay {
		if t.pos >= len(t.rec) {
			t.pos++
			return 0
		}
		v := int(t.rec[t.pos] % uint32(n))
		t.pos++
		return v
	}
	v := t.rng.IntN(n)
	t.rec = append(t.rec, uint32(v))
	t.pos++
	return v
}

// Bool draws true with probability num/den; false is the simple choice.
func (t *Tape) Bool(num, den int) bool {
	return t.Draw(den) >= den-num
}

// Biased draws in [0,n) with small values much more likely.
func (t *Tape) Small(n int) int {
	if n <= 1 {
		return 0
	}
	a := t.Draw(n)
	b := t.Draw(n)
	if b < a {
		return b
	}
	return a
}

func (t *Tape) Pick(ss []string) string { return ss[t.Draw(len(ss))] }

func (t *Tape) Record() []uint32 {
	if t.replay {
		n := t.pos
		if n > len(t.rec) {
			n = len(t.rec)
		}
		return append([]uint32(nil), t.rec[:n]...)
	}
	return append([]uint32(nil), t.rec...)
}

// ---------------------------------------------------------------- shrinking

// Shrink minimises rec while still(rec) holds.  Generic tape surgery: delete
// spans, zero draws, halve draws, decrement draws.
func Shrink(rec []uint32, still func([]uint32) bool, budget int) ([]uint32, int) {
	cur := append([]uint32(nil), rec...)
	tried := 0
	try := func(c []uint32) bool {
		if tried >= budget {
			return false
		}
		tried++
		if still(c) {
			cur = c
			return true
		}
		return false
	}
	improved := true
	for improved && tried < budget {
		improved = false
		// drop trailing zeros (draws past the end are 0 anyway)
		for len(cur) > 0 && cur[len(cur)-1] == 0 {
			cur = cur[:len(cur)-1]
		}
		// delete spans, large to small
		for span := len(cur) / 2; span >= 1; span /= 2 {
			for i := 0; i+span <= len(cur); {
				c := append(append([]uint32(nil), cur[:i]...), cur[i+span:]...)
				if try(c) {
					improved = true
				} else {
					i += span
				}
				if tried >= budget {
					break
				}
			}
		}
		// zero spans
		for span := 8; span >= 1; span /= 2 {
			for i := 0; i+span <= len(cur); i += span {
				nz := false
				for j := i; j < i+span; j++ {
					if cur[j] != 0 {
						nz = true
					}
				}
				if !nz {
					continue
				}
				c := append([]uint32(nil), cur...)
				for j := i; j < i+span; j++ {
					c[j] = 0
				}
				if try(c) {
					improved = true
				}
			}
		}
		// reduce single draws
		for i := 0; i < len(cur); i++ {
			for cur[i] > 0 {
				c := append([]uint32(nil), cur...)
				c[i] = cur[i] / 2
				if try(c) {
					improved = true
					continue
				}
				c = append([]uint32(nil), cur...)
				c[i] = cur[i] - 1
				if try(c) {
					improved = true
					continue
				}
				break
			}
		}
	}
	for len(cur) > 0 && cur[len(cur)-1] == 0 {
		cur = cur[:len(cur)-1]
	}
	return cur, tried
}
