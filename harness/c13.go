package main

import (
	"bufio"
	"fmt"
	"io"
	"strings"

	mxj "github.com/clbanning/mxj/v2"
)

// safely runs f, turning a panic of the code under test into a violation.
func safely(c *Ctx, what string, f func()) (v *Violation) {
	c.opSteps = 0
	defer func() {
		r := recover()
		steps := c.opSteps
		gp, gn := c.afterCall()
		dl := c.deadlocked
		c.deadlocked = false
		if r != nil {
			if _, ok := r.(stepLimit); ok {
				v = &Violation{Clause: c.Prop + ".nontermination/" + what, Msg: fmt.Sprintf("%s did not terminate within the step bound (%d yields in this call)", what, steps)}
				if dl {
					v.Msg = fmt.Sprintf("%s deadlocked: the caller and every goroutine it started wait for one another (after %d yields in this call)", what, steps)
				}
				c.opSteps = 0
				return
			}
			v = &Violation{Clause: c.Prop + ".panic/" + what, Msg: fmt.Sprintf("%s panicked: %v", what, r)}
			return
		}
		if strings.HasPrefix(gp, "DATA RACE: ") {
			v = &Violation{Clause: c.Prop + ".data-race/" + what, Msg: fmt.Sprintf("among the goroutines started by %s: %s", what, strings.TrimPrefix(gp, "DATA RACE: "))}
		} else if gp != "" {
			v = &Violation{Clause: c.Prop + ".panic/" + what, Msg: fmt.Sprintf("a goroutine started by %s panicked (this ends the caller's process): %s", what, gp)}
		} else if gn {
			v = &Violation{Clause: c.Prop + ".nontermination/" + what, Msg: fmt.Sprintf("a goroutine started by %s did not terminate within the step bound, or waits in a deadlock with its caller", what)}
			c.opSteps = 0
		}
	}()
	f()
	return nil
}

var codecNames = []string{"xml", "xmlseq", "json"}
var formNames = []string{"plain", "raw", "handler", "handlerRaw"}

type docSpan struct{ start, end int }

type stream struct {
	cast  bool // the optional cast argument is passed to every decoder call (XML codecs)
	codec int
	data  []byte
	docs  []docSpan
	model []interface{} // M_i from the byte-slice decoders
}

// buildStream draws 1..5 documents and their separators.
func buildStream(c *Ctx, codec int, maxDocs int, castAllowed bool) (*stream, *Violation) {
	t := c.T
	s := &stream{codec: codec, cast: codec != 2 && t.Draw(4) == 3}
	if !castAllowed {
		s.cast = false // the bulk handlers take no cast argument
	}
	n := 1 + t.Small(maxDocs)
	var b strings.Builder
	b.WriteString(interDocWS[t.Small(len(interDocWS))])
	for i := 0; i < n; i++ {
		var d string
		switch codec {
		case 0:
			d = genXMLDoc(t, XMLOpts{Prolog: i == 0 || t.Draw(3) == 2, Mixed: true})
		case 1:
			d = genXMLDoc(t, XMLOpts{Seq: true})
		case 2:
			d = genJSONDoc(t, JSONOpts{WS: t.Draw(2) == 1, Nulls: true, EmptyTop: true})
		}
		st := b.Len()
		b.WriteString(d)
		s.docs = append(s.docs, docSpan{st, b.Len()})
		b.WriteString(interDocWS[t.Small(len(interDocWS))])
	}
	s.data = []byte(b.String())
	for i, d := range s.docs {
		doc := s.data[d.start:d.end]
		var m interface{}
		var err error
		if v := safely(c, "model-decode", func() {
			switch codec {
			case 0:
				m, err = mxj.NewMapXml(doc, s.cast)
			case 1:
				m, err = mxj.NewMapXmlSeq(doc, s.cast)
			case 2:
				m, err = mxj.NewMapJson(doc)
			}
		}); v != nil {
			return nil, nil // the byte-slice decoder itself is broken: not this property's business
		}
		if err != nil {
			c.C["probe.model_decode_error"]++
			return nil, nil
		}
		_ = i
		s.model = append(s.model, m)
	}
	return s, nil
}

func asIface(m interface{}) interface{} {
	switch x := m.(type) {
	case mxj.Map:
		if x == nil {
			return nil
		}
	case mxj.MapSeq:
		if x == nil {
			return nil
		}
	}
	return m
}

// compactJSON is the documented/observed transformation the JSON raw value
// undergoes: bytes before the first '{' and white space outside strings removed.
func compactJSON(p []byte) []byte {
	var out []byte
	inStr, esc, started := false, false, false
	for _, ch := range p {
		if !started {
			if ch != '{' {
				continue
			}
			started = true
		}
		if inStr {
			out = append(out, ch)
			if esc {
				esc = false
			} else if ch == '\\' {
				esc = true
			} else if ch == '"' {
				inStr = false
			}
			continue
		}
		switch ch {
		case ' ', '\n', '\r', '\t':
			continue
		case '"':
			inStr = true
		}
		out = append(out, ch)
	}
	return out
}

func isBlank(p []byte) bool {
	for _, ch := range p {
		if ch != ' ' && ch != '\n' && ch != '\r' && ch != '\t' {
			return false
		}
	}
	return true
}

// execC13 runs one (stream, schedule, form) simulation and checks the clauses.
func execC13(c *Ctx, s *stream, form int, sch *ReadSched, stopAt int, render bool) *Violation {
	c.Eval()
	switch {
	case sch.ByteReader:
		c.C["probe.reader_kind_bytereader"]++
	case sch.Seeker == 1:
		c.C["probe.reader_kind_working_seeker"]++
	case sch.Seeker == 2:
		c.C["probe.reader_kind_failing_seeker"]++
	default:
		c.C["probe.reader_kind_plain"]++
	}
	r := NewSimReader(c, "rd", s.data, sch)
	rd := r.AsReader()
	// consumed: how far into the stream the caller's reader has been read, as the caller sees it
	consumed := r.Consumed
	if sch.Bufio > 0 {
		// the caller's own bufio.Reader (an io.ByteReader: mxj must use it as it is): its position is
		// what the stream delivered minus what is still buffered
		br := bufio.NewReaderSize(r, sch.Bufio)
		rd = br
		consumed = func() int { return r.Consumed() - br.Buffered() }
		c.C["probe.reader_kind_callers_bufio"]++
	}
	n := len(s.docs)
	tag := codecNames[s.codec] + "/" + formNames[form]
	faultOff := -1
	if sch.ErrAt >= 0 {
		faultOff = sch.ErrAt
	} else if sch.CutAt >= 0 && sch.CutAt < len(s.data) {
		faultOff = sch.CutAt
	}
	// number of documents that are completely delivered before the fault
	complete := n
	if faultOff >= 0 {
		complete = 0
		for _, d := range s.docs {
			if d.end <= faultOff {
				complete++
			}
		}
	}
	startOf := func(i int) int { // start of document i (0-based); len(data) past the last
		if i < n {
			return s.docs[i].start
		}
		return len(s.data)
	}
	var calls []string
	note := func(f string, a ...interface{}) {
		if render {
			calls = append(calls, fmt.Sprintf(f, a...))
		}
	}
	defer func() {
		if render {
			c.Put("calls", calls)
		}
		// reach accounting: what actually fired inside an operation
		if r.ZeroDelivered > 0 {
			c.C["fault.zero_read_delivered"] += int64(r.ZeroDelivered)
		}
		if r.EOFWithDataDelivered {
			c.C["fault.eof_with_data_delivered"]++
		}
		if r.ErrDelivered {
			c.C["fault.read_error_delivered"]++
		}
		if r.CutDelivered {
			c.C["fault.early_eof_delivered"]++
		}
		if r.ZeroDelivered > 0 || r.EOFWithDataDelivered || r.ErrDelivered || r.CutDelivered || (sch.Chunk == 2 && sch.ByteReader) {
			c.Distinct("nontrivial", HashStr(string(s.data)).Int(form).Int(stopAt).Int(int(sch.Hash())))
		}
	}()

	checkDoc := func(i int, m interface{}, raw []byte, haveRaw bool, err error, before, after int, errDeliveredDuring bool) *Violation {
		m = asIface(m)
		c.Event("call %d -> %x err=%v raw=%x [%d,%d)", i, uint64(Digest(m)), err, uint64(fnvOff.Bytes(raw)), before, after)
		note("call %d: consumed [%d,%d) err=%v map=%s raw=%q", i+1, before, after, err, clip(Canon(m), 200), clip(string(raw), 120))
		if i < n && (faultOff < 0 || i < complete) {
			// clause 1
			c.C["probe.c1_doc_checked"]++
			inGap := faultOff >= 0 && faultOff >= s.docs[i].end && faultOff < startOf(i+1)
			if err != nil || m == nil {
				if inGap && err != nil && m == nil {
					return nil // fault in the white space after the document: the call may fail, never return wrong data
				}
				return &Violation{"C13.c1-error/" + tag, fmt.Sprintf("document %d of %d: reader form returned err=%v map=%s; direct decode gives %s", i+1, n, err, clip(Canon(m), 200), clip(Canon(s.model[i]), 200))}
			}
			if Canon(m) != Canon(s.model[i]) {
				return &Violation{"C13.c1-map/" + tag, fmt.Sprintf("document %d of %d decoded from the reader differs from direct decode:\n reader: %s\n direct: %s", i+1, n, clip(Canon(m), 400), clip(Canon(s.model[i]), 400))}
			}
			// clause 3
			c.C["probe.c3_offset_checked"]++
			if after < s.docs[i].end || after > startOf(i+1) {
				return &Violation{"C13.c3-overread/" + tag, fmt.Sprintf("after document %d the reader had consumed %d bytes; document spans [%d,%d), next document starts at %d", i+1, after, s.docs[i].start, s.docs[i].end, startOf(i+1))}
			}
			if haveRaw {
				c.C["probe.c4_raw_checked"]++
				got := s.data[before:after]
				if string(raw) != string(got) {
					if s.codec == 2 && string(raw) == string(compactJSON(got)) && c.KnownHit("C13-json-raw-compacted", fmt.Sprintf("raw %q for consumed bytes %q", clip(string(raw), 60), clip(string(got), 60))) {
						return nil
					}
					return &Violation{"C13.c4-raw/" + tag, fmt.Sprintf("raw value of document %d is not the bytes consumed:\n raw:      %q\n consumed: %q", i+1, clip(string(raw), 300), clip(string(got), 300))}
				}
			}
			return nil
		}
		if faultOff < 0 {
			// clause 2: past the last document
			c.C["probe.c2_eof_checked"]++
			if err != io.EOF || m != nil {
				return &Violation{"C13.c2-eof/" + tag, fmt.Sprintf("call %d after %d documents returned err=%v map=%s; want io.EOF and no Map", i+1, n, err, clip(Canon(m), 200))}
			}
			if haveRaw && !isBlank(raw) {
				return &Violation{"C13.c4-raw-at-eof/" + tag, fmt.Sprintf("raw value at end of stream is %q", clip(string(raw), 200))}
			}
			return nil
		}
		// fault-injecting configuration, first incomplete document: narrow relaxation
		if errDeliveredDuring || i == complete {
			c.C["probe.fault_call_checked"]++
			if m != nil && err == nil {
				// allowed only if this really is a complete, correct document (cannot be: it is incomplete)
				return &Violation{"C13.fault-wrong-data/" + tag, fmt.Sprintf("call %d returned a Map and no error although the stream failed at offset %d inside/before that document: %s", i+1, faultOff, clip(Canon(m), 300))}
			}
			if err == nil {
				return &Violation{"C13.fault-swallowed/" + tag, fmt.Sprintf("call %d returned neither a Map nor an error although the stream failed at offset %d", i+1, faultOff)}
			}
			if m != nil {
				return &Violation{"C13.fault-partial-map/" + tag, fmt.Sprintf("call %d returned err=%v together with a Map %s", i+1, err, clip(Canon(m), 300))}
			}
		}
		return nil
	}

	switch form {
	case 0, 1:
		ncalls := n + 2
		if faultOff >= 0 {
			ncalls = complete + 1
		}
		for i := 0; i < ncalls; i++ {
			before := consumed()
			errBefore := r.ErrDelivered || r.CutDelivered
			var m interface{}
			var raw []byte
			var err error
			if v := safely(c, tag, func() {
				switch s.codec*2 + form {
				case 0:
					m, err = mxj.NewMapXmlReader(rd, s.cast)
				case 1:
					m, raw, err = mxj.NewMapXmlReaderRaw(rd, s.cast)
				case 2:
					m, err = mxj.NewMapXmlSeqReader(rd, s.cast)
				case 3:
					m, raw, err = mxj.NewMapXmlSeqReaderRaw(rd, s.cast)
				case 4:
					m, err = mxj.NewMapJsonReader(rd)
				case 5:
					m, raw, err = mxj.NewMapJsonReaderRaw(rd)
				}
			}); v != nil {
				return v
			}
			during := !errBefore && (r.ErrDelivered || r.CutDelivered)
			if v := checkDoc(i, m, raw, form == 1, err, before, consumed(), during); v != nil {
				return v
			}
		}
	case 2, 3:
		// bulk handlers
		type inv struct {
			m      interface{}
			raw    []byte
			before int
			after  int
		}
		var invs []inv
		var herrs []error
		last := 0
		mh := func(m mxj.Map, raw []byte) bool {
			invs = append(invs, inv{m, raw, last, consumed()})
			last = consumed()
			return len(invs) != stopAt
		}
		eh := func(e error, raw []byte) bool {
			herrs = append(herrs, e)
			last = consumed()
			return false
		}
		var ret error
		if v := safely(c, tag, func() {
			switch s.codec*2 + form - 2 {
			case 0:
				ret = mxj.HandleXmlReader(rd, func(m mxj.Map) bool { return mh(m, nil) }, func(e error) bool { return eh(e, nil) })
			case 1:
				ret = mxj.HandleXmlReaderRaw(rd, mh, eh)
			case 4:
				ret = mxj.HandleJsonReader(rd, func(m mxj.Map) bool { return mh(m, nil) }, func(e error) bool { return eh(e, nil) })
			case 5:
				ret = mxj.HandleJsonReaderRaw(rd, mh, eh)
			}
		}); v != nil {
			return v
		}
		c.Event("handler ret=%v invs=%d herrs=%d consumed=%d", ret, len(invs), len(herrs), consumed())
		note("handler returned %v after %d map-handler and %d error-handler invocations; consumed %d of %d", ret, len(invs), len(herrs), consumed(), len(s.data))
		// known finding: the bulk handlers skip a document that decodes to an empty Map ({}):
		// 'live' lists the documents the map handler is invoked for on such a tree
		var live []int
		for i := range s.docs {
			if mm, ok := s.model[i].(mxj.Map); ok && len(mm) == 0 {
				continue
			}
			live = append(live, i)
		}
		if len(live) != n {
			// Which reading do the invocations follow?  A tree that invokes the handler for the empty
			// objects too is right (that is what the property says) and is judged against all
			// documents; a tree that skips exactly them shows the known finding.
			followsAll, sawEmpty := true, false
			for j := 0; j < len(invs) && j < n; j++ {
				if Canon(asIface(invs[j].m)) != Canon(s.model[j]) {
					followsAll = false
					break
				}
				if mm, ok := s.model[j].(mxj.Map); ok && len(mm) == 0 {
					sawEmpty = true
				}
			}
			if (followsAll && sawEmpty) || !c.KnownHit("C13-empty-object-skipped", fmt.Sprintf("stream %q", clip(string(s.data), 80))) {
				live = live[:0]
				for i := range s.docs {
					live = append(live, i)
				}
			}
		}
		n := len(live)
		complete := complete
		if faultOff >= 0 {
			complete = 0
			for _, i := range live {
				if s.docs[i].end <= faultOff {
					complete++
				}
			}
		}
		want := n
		if stopAt > 0 && stopAt < n {
			want = stopAt
		}
		if faultOff >= 0 {
			// narrow relaxation: a prefix of the complete documents, each correct
			if len(invs) > complete {
				return &Violation{"C13.c5-fault-extra/" + tag, fmt.Sprintf("map handler invoked %d times but only %d documents were delivered before the fault at %d", len(invs), complete, faultOff)}
			}
			for i, iv := range invs {
				if Canon(asIface(iv.m)) != Canon(s.model[live[i]]) {
					return &Violation{"C13.c5-map/" + tag, fmt.Sprintf("handler invocation %d got %s, direct decode gives %s", i+1, clip(Canon(iv.m), 300), clip(Canon(s.model[live[i]]), 300))}
				}
			}
			wantAll := complete
			if stopAt > 0 && stopAt < wantAll {
				wantAll = stopAt
			}
			if len(invs) < wantAll {
				return &Violation{"C13.c5-fault-lost/" + tag, fmt.Sprintf("map handler invoked %d times although %d documents were completely delivered before the fault at %d", len(invs), wantAll, faultOff)}
			}
			// a read error that reached the handler loop must surface: through the error handler or
			// the return value (whatever error value it is - also io.ErrUnexpectedEOF)
			if r.ErrDelivered && !(stopAt > 0 && len(invs) >= stopAt) {
				c.C["probe.c5_fault_surfaced_checked"]++
				if len(herrs) == 0 && ret == nil {
					return &Violation{"C13.c5-fault-swallowed/" + tag, fmt.Sprintf("the stream failed with %v at offset %d but the bulk handler neither called the error handler nor returned an error", sch.injected(), faultOff)}
				}
			}
			return nil
		}
		c.C["probe.c5_handler_checked"]++
		if len(herrs) > 0 {
			return &Violation{"C13.c5-errhandler/" + tag, fmt.Sprintf("error handler invoked in a fault-free run: %v", herrs[0])}
		}
		if ret != nil {
			return &Violation{"C13.c5-return/" + tag, fmt.Sprintf("bulk handler returned %v in a fault-free run", ret)}
		}
		if len(invs) != want {
			return &Violation{"C13.c5-count/" + tag, fmt.Sprintf("map handler invoked %d times for %d documents (stop requested at %d)", len(invs), n, stopAt)}
		}
		for i, iv := range invs {
			before := iv.before
			if live[i] > 0 && (i == 0 || live[i-1] != live[i]-1) {
				before = -1 // skipped empty documents precede this one: the raw start is not comparable
			}
			if v := checkDoc(live[i], iv.m, iv.raw, form == 3 && before >= 0, nil, before, iv.after, false); v != nil {
				v.Clause = strings.Replace(v.Clause, "C13.c", "C13.c5+c", 1)
				return v
			}
		}
		if want > 0 && (want < n || stopAt == n) {
			// stopped by the handler: nothing past the next document may be consumed
			if lim := startOf(live[want-1] + 1); consumed() > lim {
				return &Violation{"C13.c5-stop-overread/" + tag, fmt.Sprintf("handler stopped after document %d but %d bytes were consumed (next document starts at %d)", want, consumed(), lim)}
			}
			c.C["probe.c5_stop_checked"]++
		}
	}
	return nil
}

func runC13(c *Ctx) *Violation {
	t := c.T
	codec := t.Draw(3)
	form := t.Draw(4)
	if codec == 1 {
		form = form % 2
	}
	mode := t.Draw(8) // 0: enumerate single zero-read positions x EOF modes; 7,6: fault-injecting; else seeded schedule
	s, v := buildStream(c, codec, 5, form < 2)
	if v != nil {
		return v
	}
	if s == nil {
		return nil
	}
	c.Put("cast", s.cast)
	stopAt := 0
	if form >= 2 && t.Draw(2) == 1 {
		stopAt = 1 + t.Draw(len(s.docs))
	}
	c.Put("codec", codecNames[codec])
	c.Put("form", formNames[form])
	c.Put("stream", string(s.data))
	c.Put("documents", fmt.Sprint(s.docs))
	c.Put("handler_stop_at", stopAt)
	c.Distinct("streams", HashStr(string(s.data)))
	L := len(s.data)

	if mode == 0 && (L <= 160 || c.Tier == "thorough" && L <= 500) {
		// single-fault enumeration: every zero-read position x both EOF modes
		base := &ReadSched{ErrAt: -1, CutAt: -1, ByteReader: false, Chunk: t.Draw(3)}
		if base.Chunk == 2 {
			base.ChunkSeed = uint64(t.Draw(1 << 30))
		}
		only := -1
		if c.T.replay {
			only = -2
		}
		_ = only
		c.C["probe.enumerated_streams"]++
		for p := 0; p <= L; p++ {
			for e := 0; e < 2; e++ {
				sch := *base
				sch.ZeroReads = map[int]int{p: 1}
				sch.EOFWithData = e == 1
				if v := execC13(c, s, form, &sch, stopAt, false); v != nil {
					c.Put("schedule", sch.String())
					c.Put("enumerated", fmt.Sprintf("zero-read position %d of %d, eofWithData=%v", p, L, e == 1))
					if c.Render {
						execC13(c, s, form, &sch, stopAt, true)
					}
					return v
				}
			}
		}
		c.sample = map[string]interface{}{"kind": "enumeration of every single (0,nil) read position x EOF mode", "codec": codecNames[codec], "form": formNames[form], "stream": clip(string(s.data), 200), "schedules": 2 * (L + 1)}
		return nil
	}
	sch := DrawReadSched(t, L, mode >= 6)
	c.Put("schedule", sch.String())
	if mode >= 6 {
		c.C["probe.fault_config_cases"]++
	}
	if c.sample == nil {
		c.sample = map[string]interface{}{"codec": codecNames[codec], "form": formNames[form], "stream": clip(string(s.data), 200), "schedule": sch.String(), "handler_stop_at": stopAt}
	}
	return execC13(c, s, form, sch, stopAt, c.Render)
}

func init() {
	register(&Property{
		ID:    "C13",
		Level: "exploration",
		Cases: func(tier string) int {
			if tier == "thorough" {
				return 4000000
			}
			return 300000
		},
		Run:  runC13,
		Rule: "each case = (seeded stream of 1..5 XML / sequence-XML / JSON documents with drawn separators) x (reader form: plain, Raw, bulk handler, bulk Raw handler, drawn stop index) x (delivery schedule drawn from the tape: reader kind, chunk policy, EOF with or after the last data, (offset,count) zero-reads, optional injected error / early EOF); one case in eight instead enumerates every single (0,nil)-read position x both EOF modes for its stream. A case is non-trivial when a zero-read, a data+EOF read, an injected error or an early EOF was actually delivered during a decode call; distinct = distinct (stream, form, stop index, schedule) hashes among those.",
		Assumptions: []string{
			"the reference Maps come from mxj's own byte-slice decoders (NewMapXml, NewMapXmlSeq, NewMapJson) as the property words it; a defect common to both paths is invisible",
			"the instrumented scratch copy behaves as /repo (transparency self-test: repository test-suite passes on it)",
			"JSON Raw values are compared modulo the recorded known finding C13-json-raw-compacted",
		},
		Components: map[string][]string{
			"real": {"mxj reader functions, byteReader/teeReader adaptors, getJson, bulk handlers", "encoding/xml", "encoding/json"},
			"stub": {"io.Reader endpoint (SimReader)", "time.Sleep/time.After (virtual clock)"},
		},
	})
}
