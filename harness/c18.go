package main

import (
	"fmt"
	"strings"

	mxj "github.com/clbanning/mxj/v2"
)

// ---------------------------------------------------------------- executable model of the option state
//
// One field per option, one transition per setter form, written from the doc
// comments of the setters (DESIGN.md §3 C18).

type optModel struct {
	AttrPrefix  string
	TagSeq      bool
	Lower       bool
	Snake       bool
	NoTrim      bool
	SimpleAsMap bool
	XMPP        bool
	CastInt     bool
	CastFloat   bool
	CastBool    bool
	NanInf      bool
	SkipFn      int
	GoEmpty     bool
	CheckValid  bool
	Escape      bool
	EscapeDec   bool
	KeyPrefix   string
	DotNotation bool
	FieldSep    string
	ArraySize   int
	UseNumber   bool
}

func defaultModel() optModel {
	return optModel{AttrPrefix: "-", CastFloat: true, CastBool: true, KeyPrefix: "#", FieldSep: ":", ArraySize: 32}
}

var skipFns = []func(string) bool{
	nil,
	func(t string) bool { return t == "i" || t == "-k" || t == "#text" },
	func(t string) bool { return strings.HasPrefix(t, "e") },
	func(t string) bool { return true },    // skip everything - also the empty tag the sequence decoder passes
	func(t string) bool { return t == "" }, // only the empty tag
}

type optStep struct {
	Name string
	Do   func(m *optModel) // applies to the model AND calls the real setter
}

func tog(cur bool, form int) (val bool, explicit bool) {
	switch form {
	case 0:
		return !cur, false
	case 1:
		return true, true
	default:
		return false, true
	}
}

var attrPrefixes = []string{"-", "@", "_", "attr_", ""}
var keyPrefixes = []string{"#", "_", "%", "&", "$", "!"}
var fieldSeps = []string{"|", "", ":", "/"}

func boolSetter(name string, form int, get func(m *optModel) *bool, real func(b ...bool)) optStep {
	switch form {
	case 0:
		return optStep{name + "()", func(m *optModel) { p := get(m); *p = !*p; real() }}
	case 1:
		return optStep{name + "(true)", func(m *optModel) { *get(m) = true; real(true) }}
	default:
		return optStep{name + "(false)", func(m *optModel) { *get(m) = false; real(false) }}
	}
}

// drawStep draws one setter call.  cur is consulted only to keep the history
// inside the property's domain (attribute prefix distinct from the key prefix).
func drawStep(t *Tape, cur *optModel) optStep {
	form := t.Draw(3)
	switch t.Draw(21) {
	case 0:
		if form == 0 || cur.KeyPrefix == "-" {
			return optStep{"PrependAttrWithHyphen(false)", func(m *optModel) { m.AttrPrefix = ""; mxj.PrependAttrWithHyphen(false) }}
		}
		return optStep{"PrependAttrWithHyphen(true)", func(m *optModel) { m.AttrPrefix = "-"; mxj.PrependAttrWithHyphen(true) }}
	case 1:
		s := attrPrefixes[t.Draw(len(attrPrefixes))]
		if s == cur.KeyPrefix {
			s = "@"
		}
		return optStep{fmt.Sprintf("SetAttrPrefix(%q)", s), func(m *optModel) { m.AttrPrefix = s; mxj.SetAttrPrefix(s) }}
	case 2:
		return boolSetter("IncludeTagSeqNum", form, func(m *optModel) *bool { return &m.TagSeq }, mxj.IncludeTagSeqNum)
	case 3:
		return boolSetter("CoerceKeysToLower", form, func(m *optModel) *bool { return &m.Lower }, mxj.CoerceKeysToLower)
	case 4:
		return boolSetter("CoerceKeysToSnakeCase", form, func(m *optModel) *bool { return &m.Snake }, mxj.CoerceKeysToSnakeCase)
	case 5:
		switch form {
		case 0: // documented: no argument disables trimming
			return optStep{"DisableTrimWhiteSpace()", func(m *optModel) { m.NoTrim = true; mxj.DisableTrimWhiteSpace() }}
		case 1:
			return optStep{"DisableTrimWhiteSpace(true)", func(m *optModel) { m.NoTrim = true; mxj.DisableTrimWhiteSpace(true) }}
		}
		return optStep{"DisableTrimWhiteSpace(false)", func(m *optModel) { m.NoTrim = false; mxj.DisableTrimWhiteSpace(false) }}
	case 6:
		return boolSetter("DecodeSimpleValuesAsMap", form, func(m *optModel) *bool { return &m.SimpleAsMap }, mxj.DecodeSimpleValuesAsMap)
	case 7:
		return boolSetter("HandleXMPPStreamTag", form, func(m *optModel) *bool { return &m.XMPP }, mxj.HandleXMPPStreamTag)
	case 8:
		return boolSetter("CastValuesToInt", form, func(m *optModel) *bool { return &m.CastInt }, mxj.CastValuesToInt)
	case 9:
		return boolSetter("CastValuesToFloat", form, func(m *optModel) *bool { return &m.CastFloat }, mxj.CastValuesToFloat)
	case 10:
		return boolSetter("CastValuesToBool", form, func(m *optModel) *bool { return &m.CastBool }, mxj.CastValuesToBool)
	case 11:
		return boolSetter("CastNanInf", form, func(m *optModel) *bool { return &m.NanInf }, mxj.CastNanInf)
	case 12:
		i := t.Draw(len(skipFns))
		return optStep{fmt.Sprintf("SetCheckTagToSkipFunc(fn%d)", i), func(m *optModel) { m.SkipFn = i; mxj.SetCheckTagToSkipFunc(skipFns[i]) }}
	case 13:
		if form == 0 {
			return optStep{"XmlGoEmptyElemSyntax()", func(m *optModel) { m.GoEmpty = true; mxj.XmlGoEmptyElemSyntax() }}
		}
		return optStep{"XmlDefaultEmptyElemSyntax()", func(m *optModel) { m.GoEmpty = false; mxj.XmlDefaultEmptyElemSyntax() }}
	case 14:
		return boolSetter("XmlCheckIsValid", form, func(m *optModel) *bool { return &m.CheckValid }, mxj.XmlCheckIsValid)
	case 15:
		// XMLEscapeChars: ignored (forced off) while decoder-side escaping is on
		return optStep{"XMLEscapeChars" + []string{"()", "(true)", "(false)"}[form], func(m *optModel) {
			v, _ := tog(m.Escape, form)
			m.Escape = v && !m.EscapeDec
			switch form {
			case 0:
				mxj.XMLEscapeChars()
			case 1:
				mxj.XMLEscapeChars(true)
			default:
				mxj.XMLEscapeChars(false)
			}
		}}
	case 16:
		// XMLEscapeCharsDecoder(true) switches encoder-side escaping off
		return optStep{"XMLEscapeCharsDecoder" + []string{"()", "(true)", "(false)"}[form], func(m *optModel) {
			v, _ := tog(m.EscapeDec, form)
			m.EscapeDec = v
			if m.EscapeDec {
				m.Escape = false
			}
			switch form {
			case 0:
				mxj.XMLEscapeCharsDecoder()
			case 1:
				mxj.XMLEscapeCharsDecoder(true)
			default:
				mxj.XMLEscapeCharsDecoder(false)
			}
		}}
	case 17:
		s := keyPrefixes[t.Draw(len(keyPrefixes))]
		if s == cur.AttrPrefix {
			s = "%"
		}
		return optStep{fmt.Sprintf("SetGlobalKeyMapPrefix(%q)", s), func(m *optModel) { m.KeyPrefix = s; mxj.SetGlobalKeyMapPrefix(s) }}
	case 18:
		return boolSetter("LeafUseDotNotation", form, func(m *optModel) *bool { return &m.DotNotation }, mxj.LeafUseDotNotation)
	case 19:
		if form == 0 {
			return optStep{"SetFieldSeparator()", func(m *optModel) { m.FieldSep = ":"; mxj.SetFieldSeparator() }}
		}
		s := fieldSeps[t.Draw(len(fieldSeps))]
		return optStep{fmt.Sprintf("SetFieldSeparator(%q)", s), func(m *optModel) {
			if s == "" {
				m.FieldSep = ":"
			} else {
				m.FieldSep = s
			}
			mxj.SetFieldSeparator(s)
		}}
	default:
		if form == 0 {
			n := []int{0, 10, 64, 1000}[t.Draw(4)]
			return optStep{fmt.Sprintf("SetArraySize(%d)", n), func(m *optModel) {
				if n > 32 {
					m.ArraySize = n
				} else {
					m.ArraySize = 32
				}
				mxj.SetArraySize(n)
			}}
		}
		b := form == 1
		return optStep{fmt.Sprintf("JsonUseNumber=%v", b), func(m *optModel) { m.UseNumber = b; mxj.JsonUseNumber = b }}
	}
}

func restoreSteps() []optStep {
	return []optStep{
		{"PrependAttrWithHyphen(true)", func(m *optModel) { m.AttrPrefix = "-"; mxj.PrependAttrWithHyphen(true) }},
		{"IncludeTagSeqNum(false)", func(m *optModel) { m.TagSeq = false; mxj.IncludeTagSeqNum(false) }},
		{"CoerceKeysToLower(false)", func(m *optModel) { m.Lower = false; mxj.CoerceKeysToLower(false) }},
		{"CoerceKeysToSnakeCase(false)", func(m *optModel) { m.Snake = false; mxj.CoerceKeysToSnakeCase(false) }},
		{"DisableTrimWhiteSpace(false)", func(m *optModel) { m.NoTrim = false; mxj.DisableTrimWhiteSpace(false) }},
		{"DecodeSimpleValuesAsMap(false)", func(m *optModel) { m.SimpleAsMap = false; mxj.DecodeSimpleValuesAsMap(false) }},
		{"HandleXMPPStreamTag(false)", func(m *optModel) { m.XMPP = false; mxj.HandleXMPPStreamTag(false) }},
		{"CastValuesToInt(false)", func(m *optModel) { m.CastInt = false; mxj.CastValuesToInt(false) }},
		{"CastValuesToFloat(true)", func(m *optModel) { m.CastFloat = true; mxj.CastValuesToFloat(true) }},
		{"CastValuesToBool(true)", func(m *optModel) { m.CastBool = true; mxj.CastValuesToBool(true) }},
		{"CastNanInf(false)", func(m *optModel) { m.NanInf = false; mxj.CastNanInf(false) }},
		{"SetCheckTagToSkipFunc(nil)", func(m *optModel) { m.SkipFn = 0; mxj.SetCheckTagToSkipFunc(nil) }},
		{"XmlDefaultEmptyElemSyntax()", func(m *optModel) { m.GoEmpty = false; mxj.XmlDefaultEmptyElemSyntax() }},
		{"XmlCheckIsValid(false)", func(m *optModel) { m.CheckValid = false; mxj.XmlCheckIsValid(false) }},
		{"XMLEscapeCharsDecoder(false)", func(m *optModel) { m.EscapeDec = false; mxj.XMLEscapeCharsDecoder(false) }},
		{"XMLEscapeChars(false)", func(m *optModel) { m.Escape = false; mxj.XMLEscapeChars(false) }},
		{"SetGlobalKeyMapPrefix(\"#\")", func(m *optModel) { m.KeyPrefix = "#"; mxj.SetGlobalKeyMapPrefix("#") }},
		{"LeafUseDotNotation(false)", func(m *optModel) { m.DotNotation = false; mxj.LeafUseDotNotation(false) }},
		{"SetFieldSeparator()", func(m *optModel) { m.FieldSep = ":"; mxj.SetFieldSeparator() }},
		{"SetArraySize(0)", func(m *optModel) { m.ArraySize = 32; mxj.SetArraySize(0) }},
		{"JsonUseNumber=false", func(m *optModel) { m.UseNumber = false; mxj.JsonUseNumber = false }},
	}
}

// ---------------------------------------------------------------- probe families and the dependency matrix

type family struct {
	Name string
	// Proj projects the model state on the options this family may depend on
	// according to the documentation.
	Proj func(m *optModel) string
	Run  func() string
}

var xmlCorpus = []string{
	`<doc><a id="1" Name-x="v">text</a><b> sp </b><B>x&amp;y &lt;z&gt;</B><c/><e-f>1</e-f><e-f>true</e-f></doc>`,
	`<stream:stream to="x" xmlns:stream="s"><b>1</b></stream:stream>`,
	`<r><i>NaN</i><i>3.5</i><i>T</i><i>-Inf</i><n k="7">12</n><s>  </s><i>18446744073709551615</i></r>`,
	`<m at="q&quot;">hello<k>1</k></m>`,
	`<p><!-- c --><?pi x?><q a="1" b="2">z</q><q>y</q></p>`,
	`<x-y A-b="1"><Sub-El>v</Sub-El><e>false</e></x-y>`,
	`<g><e></e><f/><h a=""/><i> </i></g>`,
}

var jsonCorpus = []string{
	`{"a":1.0,"b":[1e3,"x",null],"c":{"d":123456789012345678}}`,
	`[{"k":2.50}]`,
	`{"Up-Key":" padded ","-attr":"x","#text":"t","_seq":1,"n":[" a ", true, 1e2]}`,
}

func fixedMaps() []mxj.Map {
	return []mxj.Map{
		{"doc": map[string]interface{}{"-id": "1", "#text": "t<&>", "a": []interface{}{"x", map[string]interface{}{"-k": "v", "#text": "y"}}, "b": "", "c": nil, "n": 3.5,
			"_text": "u", "%text": "w", "@at": "z", "attr_q": "r", "_p": "s"}},
		{"a": 1, "b": map[string]interface{}{"c": true, "-k": "v'\""}},
		{"list": map[string]interface{}{"item": []interface{}{map[string]interface{}{"-id": "1", "v": "a"}, map[string]interface{}{"-id": "2", "v": "b"}}}},
		// numeric, upper-case and hyphenated keys: an option leaking into a family it must not
		// affect (dot notation into path parsing, case folding into queries) needs them to show
		{"rows": []interface{}{map[string]interface{}{"cells": map[string]interface{}{"0": "a", "1": "b"}}, map[string]interface{}{"cells": map[string]interface{}{"0": "c", "Up-Key": " x "}}}, "Up-Key": map[string]interface{}{"0": 1.5, "Sub-Key": []interface{}{"p", "q"}}},
	}
}

func fixedSeqs() []mxj.MapSeq {
	mk := func(p string) mxj.MapSeq {
		return mxj.MapSeq{"r": map[string]interface{}{
			p + "attr":     map[string]interface{}{"k": map[string]interface{}{p + "text": "v<", p + "seq": 1}, "j": map[string]interface{}{p + "text": "w", p + "seq": 0}},
			"a":            map[string]interface{}{p + "text": "1&", p + "seq": 1},
			p + "comment":  map[string]interface{}{p + "text": " c ", p + "seq": 0},
			"b":            []interface{}{map[string]interface{}{p + "seq": 2, p + "text": "x"}, map[string]interface{}{p + "seq": 3}},
			p + "procinst": map[string]interface{}{p + "target": "t", p + "inst": "i", p + "seq": 4},
		}}
	}
	return []mxj.MapSeq{mk("#"), mk("_"), mk("%")}
}

func hres(parts ...interface{}) string {
	var b strings.Builder
	for _, p := range parts {
		switch x := p.(type) {
		case []byte:
			b.WriteString(string(x))
		case error:
			if x != nil {
				b.WriteString("E:" + x.Error())
			}
		case nil:
		default:
			b.WriteString(Canon(asIface(x)))
		}
		b.WriteByte(0)
	}
	return b.String()
}

func guarded(f func() string) (out string) {
	if curCtx != nil {
		curCtx.opSteps = 0
	}
	defer func() {
		r := recover()
		gp, gn := "", false
		if curCtx != nil {
			gp, gn = curCtx.afterCall()
		}
		if r != nil {
			if _, ok := r.(stepLimit); ok {
				panic(r)
			}
			out = fmt.Sprintf("PANIC:%v", r)
		} else if gp != "" {
			out = "PANIC in a goroutine:" + gp
		} else if gn {
			panic(stepLimit{})
		}
	}()
	return f()
}

func xmlDecodeDeps(m *optModel) string {
	return fmt.Sprintf("attr=%q seq=%v lower=%v snake=%v notrim=%v simple=%v xmpp=%v escdec=%v key=%q", m.AttrPrefix, m.TagSeq, m.Lower, m.Snake, m.NoTrim, m.SimpleAsMap, m.XMPP, m.EscapeDec, m.KeyPrefix)
}
func castDeps(m *optModel) string {
	return fmt.Sprintf(" int=%v float=%v bool=%v naninf=%v", m.CastInt, m.CastFloat, m.CastBool, m.NanInf)
}
func seqDecodeDeps(m *optModel) string {
	return fmt.Sprintf("snake=%v notrim=%v xmpp=%v escdec=%v key=%q", m.Snake, m.NoTrim, m.XMPP, m.EscapeDec, m.KeyPrefix)
}

var families = []family{
	{"xml-decode (no cast)", xmlDecodeDeps, func() string {
		var b strings.Builder
		for _, d := range xmlCorpus {
			m, err := mxj.NewMapXml([]byte(d))
			b.WriteString(hres(m, err))
			r, err2 := mxj.NewMapXmlReader(strings.NewReader(d))
			b.WriteString(hres(r, err2))
		}
		return b.String()
	}},
	{"xml-decode (cast)", func(m *optModel) string { return xmlDecodeDeps(m) + castDeps(m) + fmt.Sprintf(" skip=%d", m.SkipFn) }, func() string {
		var b strings.Builder
		for _, d := range xmlCorpus {
			m, err := mxj.NewMapXml([]byte(d), true)
			b.WriteString(hres(m, err))
		}
		return b.String()
	}},
	{"xml-decode (cast) of integer literals", func(m *optModel) string {
		// documented: with CastValuesToInt on, integer literals become int64/uint64 whatever the
		// float and bool switches say; NaN/Inf handling does not concern them
		d := xmlDecodeDeps(m) + fmt.Sprintf(" skip=%d int=%v", m.SkipFn, m.CastInt)
		if !m.CastInt {
			d += fmt.Sprintf(" float=%v", m.CastFloat)
		}
		return d
	}, func() string {
		var b strings.Builder
		for _, d := range []string{
			`<r><i>0</i><i>-1</i><i>42</i><n k="7">9223372036854775807</n><i>9223372036854775808</i><i>18446744073709551615</i><i>-9223372036854775808</i></r>`,
			`<q a="12" b="18446744073709551614"><z>100</z><z>7</z></q>`,
		} {
			m, err := mxj.NewMapXml([]byte(d), true)
			b.WriteString(hres(m, err))
		}
		return b.String()
	}},
	{"sequence-decode (no cast)", seqDecodeDeps, func() string {
		var b strings.Builder
		for _, d := range xmlCorpus {
			m, err := mxj.NewMapXmlSeq([]byte(d))
			b.WriteString(hres(m, err))
		}
		return b.String()
	}},
	{"sequence-decode (cast)", func(m *optModel) string { return seqDecodeDeps(m) + castDeps(m) }, func() string {
		var b strings.Builder
		for _, d := range xmlCorpus {
			m, err := mxj.NewMapXmlSeq([]byte(d), true)
			b.WriteString(hres(m, err))
		}
		return b.String()
	}},
	{"json-decode", func(m *optModel) string { return fmt.Sprintf("usenumber=%v", m.UseNumber) }, func() string {
		var b strings.Builder
		for _, d := range jsonCorpus {
			m, err := mxj.NewMapJson([]byte(d))
			b.WriteString(hres(m, err))
			r, err2 := mxj.NewMapJsonReader(strings.NewReader(d))
			b.WriteString(hres(r, err2))
		}
		// Copy is a JSON round trip through NewMapJson, hence in this family
		for _, m := range fixedMaps() {
			c, err := m.Copy()
			b.WriteString(hres(c, err))
		}
		return b.String()
	}},
	{"xml-encode", func(m *optModel) string {
		return fmt.Sprintf("attr=%q key=%q esc=%v goempty=%v valid=%v", m.AttrPrefix, m.KeyPrefix, m.Escape, m.GoEmpty, m.CheckValid)
	}, func() string {
		var b strings.Builder
		for _, m := range fixedMaps() {
			x, err := m.Xml()
			b.WriteString(hres(x, err))
			x, err = m.XmlIndent("", " ")
			b.WriteString(hres(x, err))
			x, err = mxj.AnyXml(map[string]interface{}(m), "top")
			b.WriteString(hres(x, err))
		}
		return b.String()
	}},
	{"sequence-encode", func(m *optModel) string {
		return fmt.Sprintf("key=%q esc=%v goempty=%v valid=%v", m.KeyPrefix, m.Escape, m.GoEmpty, m.CheckValid)
	}, func() string {
		var b strings.Builder
		for _, m := range fixedSeqs() {
			x, err := m.Xml()
			b.WriteString(hres(x, err))
			x, err = m.XmlIndent("", " ")
			b.WriteString(hres(x, err))
		}
		return b.String()
	}},
	{"json-encode", func(m *optModel) string { return "" }, func() string {
		var b strings.Builder
		for _, m := range fixedMaps() {
			x, err := m.Json()
			b.WriteString(hres(x, err))
			x, err = m.JsonIndent("", " ", true)
			b.WriteString(hres(x, err))
			b.WriteString(m.StringIndent())
		}
		return b.String()
	}},
	{"leaf queries", func(m *optModel) string {
		return fmt.Sprintf("attr=%q key=%q dot=%v", m.AttrPrefix, m.KeyPrefix, m.DotNotation)
	}, func() string {
		var b strings.Builder
		for _, m := range fixedMaps() {
			b.WriteString(hres(sortedLeaves(m.LeafNodes()), sortedLeaves(m.LeafNodes(true))))
			b.WriteString(hres(sortedStrs(m.LeafPaths())))
		}
		return b.String()
	}},
	{"sub-key queries, updates, Elements/Attributes", func(m *optModel) string {
		return fmt.Sprintf("attr=%q sep=%q", m.AttrPrefix, m.FieldSep)
	}, func() string {
		var b strings.Builder
		for _, m0 := range fixedMaps() {
			m := mxj.Map(DeepCopy(map[string]interface{}(m0)).(map[string]interface{}))
			v, err := m.ValuesForPath("doc.a", "-k:v")
			b.WriteString(hres(v, err))
			v, err = m.ValuesForPath("list.item", "-id|2")
			b.WriteString(hres(v, err))
			v, err = m.ValuesForKey("item", "!v:a", "-id:*")
			b.WriteString(hres(v, err))
			e, err := m.Elements("doc")
			b.WriteString(hres(e, err))
			e, err = m.Attributes("doc")
			b.WriteString(hres(e, err))
			n, err := m.UpdateValuesForPath("v:new", "list.item", "-id:1")
			b.WriteString(hres(n, err, map[string]interface{}(m)))
			n, err = m.UpdateValuesForPath("c|7|num", "b")
			b.WriteString(hres(n, err, map[string]interface{}(m)))
		}
		return b.String()
	}},
	// plain path/key queries and NewMap take no sub-keys: per the documentation NO option reaches
	// them (NewMap's "old:new" pairs always use ':'; the result buffer size is not observable)
	{"plain path/key queries and NewMap", func(m *optModel) string { return "" }, func() string {
		var b strings.Builder
		for _, m0 := range append(fixedMaps(), wideMap()) {
			m := mxj.Map(DeepCopy(map[string]interface{}(m0)).(map[string]interface{}))
			v, err := m.ValuesForPath("list.item[1]")
			b.WriteString(hres(v, err))
			b.WriteString(hres(sortedStrs(m.PathsForKey("-k")), m.PathForKeyShortest("v")))
			ok, err := m.Exists("b.c")
			b.WriteString(hres(ok, err))
			nm, err := m.NewMap("list.item:x.y", "a:z")
			b.WriteString(hres(nm, err))
			v, err = m.ValuesForPath("rows[1].cells.0")
			b.WriteString(hres(v, err))
			v, err = m.ValuesForPath("rows.cells.1")
			b.WriteString(hres(v, err))
			v, err = m.ValuesForPath("Up-Key.Sub-Key[1]")
			b.WriteString(hres(v, err))
			v, err = m.ValuesForKey("Up-Key")
			b.WriteString(hres(v, err))
			ok, err = m.Exists("rows[0].cells.1")
			b.WriteString(hres(ok, err))
			nm, err = m.NewMap("rows[1].cells.0:first", "Up-Key.0:n")
			b.WriteString(hres(nm, err))
			v, err = m.ValuesForKey("w")
			b.WriteString(hres(len(v), v, err))
			v, err = m.ValuesForPath("wide.w")
			b.WriteString(hres(len(v), v, err))
			v, err = m.ValuesForPath("wide.*")
			b.WriteString(hres(len(v), err))
			s, err := m.ValueForPathString("wide.w[39]")
			b.WriteString(hres(s, err))
		}
		return b.String()
	}},
}

// wideMap has more members than any SetArraySize value below 64 and more than the default 32.
func wideMap() mxj.Map {
	l := make([]interface{}, 45)
	for i := range l {
		l[i] = fmt.Sprintf(" v%02d ", i)
	}
	return mxj.Map{"wide": map[string]interface{}{"w": l, "x": " pad "}}
}

func sortedStrs(s []string) []string {
	o := append([]string(nil), s...)
	for i := 1; i < len(o); i++ {
		for j := i; j > 0 && o[j] < o[j-1]; j-- {
			o[j], o[j-1] = o[j-1], o[j]
		}
	}
	return o
}

func sortedLeaves(l []mxj.LeafNode) []mxj.LeafNode {
	o := append([]mxj.LeafNode(nil), l...)
	for i := 1; i < len(o); i++ {
		for j := i; j > 0 && o[j].Path < o[j-1].Path; j-- {
			o[j], o[j-1] = o[j-1], o[j]
		}
	}
	return o
}

// realize brings a pristine package into the model state m with one explicit
// setter call per option that differs from its default ("canonical realization").
func realize(m *optModel) {
	d := defaultModel()
	if m.AttrPrefix != d.AttrPrefix {
		mxj.SetAttrPrefix(m.AttrPrefix)
	}
	if m.TagSeq {
		mxj.IncludeTagSeqNum(true)
	}
	if m.Lower {
		mxj.CoerceKeysToLower(true)
	}
	if m.Snake {
		mxj.CoerceKeysToSnakeCase(true)
	}
	if m.NoTrim {
		mxj.DisableTrimWhiteSpace(true)
	}
	if m.SimpleAsMap {
		mxj.DecodeSimpleValuesAsMap(true)
	}
	if m.XMPP {
		mxj.HandleXMPPStreamTag(true)
	}
	if m.CastInt {
		mxj.CastValuesToInt(true)
	}
	if !m.CastFloat {
		mxj.CastValuesToFloat(false)
	}
	if !m.CastBool {
		mxj.CastValuesToBool(false)
	}
	if m.NanInf {
		mxj.CastNanInf(true)
	}
	if m.SkipFn != 0 {
		mxj.SetCheckTagToSkipFunc(skipFns[m.SkipFn])
	}
	if m.GoEmpty {
		mxj.XmlGoEmptyElemSyntax()
	}
	if m.CheckValid {
		mxj.XmlCheckIsValid(true)
	}
	if m.EscapeDec {
		mxj.XMLEscapeCharsDecoder(true)
	}
	if m.Escape {
		mxj.XMLEscapeChars(true)
	}
	if m.KeyPrefix != d.KeyPrefix {
		mxj.SetGlobalKeyMapPrefix(m.KeyPrefix)
	}
	if m.DotNotation {
		mxj.LeafUseDotNotation(true)
	}
	if m.FieldSep != d.FieldSep {
		mxj.SetFieldSeparator(m.FieldSep)
	}
	if m.ArraySize != d.ArraySize {
		mxj.SetArraySize(m.ArraySize)
	}
	if m.UseNumber {
		mxj.JsonUseNumber = true
	}
}

func snapshotGlobals() []savedVar {
	out := make([]savedVar, len(pristine))
	for i, s := range pristine {
		out[i] = snapVar(s.name, s.ptr)
	}
	return out
}

func restoreGlobals(snap []savedVar) {
	for _, s := range snap {
		restoreVar(s)
	}
}

var freshHashes []Hash
var freshGlobals Hash

func initC18() {
	// a fresh process: before any setter has been called (map iteration already
	// under the simulator's ascending order, as in every case)
	installHooks(newCtx("C18", "init", nil, false))
	defer uninstallHooks()
	for _, f := range families {
		freshHashes = append(freshHashes, HashStr(guarded(f.Run)))
	}
	freshGlobals = globalsDigest()
}

func runC18(c *Ctx) *Violation {
	t := c.T
	model := defaultModel()
	table := map[string]Hash{}
	origin := map[string]string{}
	def := defaultModel()
	for i, f := range families {
		k := f.Name + "\x00" + f.Proj(&def)
		table[k] = freshHashes[i]
		origin[k] = "a fresh process"
	}
	var hist []string
	var lastHashes []Hash
	probe := func(after string) *Violation {
		c.Eval()
		lastHashes = lastHashes[:0]
		for _, f := range families {
			proj := f.Proj(&model)
			k := f.Name + "\x00" + proj
			h := HashStr(guarded(f.Run))
			lastHashes = append(lastHashes, h)
			c.C["probe.family_runs"]++
			c.Distinct("projected_states", HashStr(k))
			c.Event("probe %s [%s] -> %x", f.Name, proj, uint64(h))
			if want, seen := table[k]; seen {
				c.C["probe.table_comparisons"]++
				if want != h {
					return &Violation{"C18.behaviour-differs/" + f.Name, fmt.Sprintf("after %s the family %q behaves differently from what it did after %s, although the options it may depend on have the same values (%s) in both states", after, f.Name, origin[k], proj)}
				}
			} else {
				table[k] = h
				origin[k] = after
			}
		}
		return nil
	}
	// reference realization: the same option values reached from a pristine package by
	// one explicit call per option must give the same behaviour as the history did
	reference := func(after string) *Violation {
		if facts.GoStmts > 0 {
			// goroutines of the package are bound to the package state that started them (a worker
			// waits on the channel a sync.Once made): swapping the state under them and back would
			// leave the restored state without its goroutines.  The table rule remains.
			c.C["probe.reference_realizations_skipped_tree_starts_goroutines"]++
			return nil
		}
		c.Eval()
		snap := snapshotGlobals()
		resetPackageState()
		realize(&model)
		var ref []Hash
		for _, f := range families {
			ref = append(ref, HashStr(guarded(f.Run)))
		}
		restoreGlobals(snap)
		c.C["probe.reference_realizations"]++
		for i, f := range families {
			if ref[i] != lastHashes[i] {
				return &Violation{"C18.history-dependent/" + f.Name, fmt.Sprintf("after %s the family %q behaves differently from a pristine package brought to the same option values by one explicit setter call per option: behaviour depends on the history of option calls, not only on their current values (%s)", after, f.Name, f.Proj(&model))}
			}
		}
		return nil
	}
	n := 1 + t.Small(40)
	setters := 0
	var prevName string
	for i := 0; i < n; i++ {
		st := drawStep(t, &model)
		st.Do(&model)
		setters++
		hist = append(hist, st.Name)
		c.Put("history", hist)
		c.Event("set %s", st.Name)
		if prevName != "" {
			c.Distinct("ordered_setter_pairs", HashStr(prevName+">"+st.Name))
		}
		prevName = st.Name
		if t.Draw(3) != 0 || i == n-1 {
			after := fmt.Sprintf("step %d (%s)", i+1, st.Name)
			if v := probe(after); v != nil {
				return v
			}
			if i == n-1 || t.Draw(4) == 3 {
				if v := reference(after); v != nil {
					return v
				}
			}
		}
		if t.Draw(6) == 5 {
			// explicit setters are idempotent: issue the same call again and probe
			st.Do(&model)
			if !strings.HasSuffix(st.Name, "()") || strings.HasPrefix(st.Name, "DisableTrim") || strings.HasPrefix(st.Name, "SetFieldSep") || strings.HasPrefix(st.Name, "Xml") && !strings.HasPrefix(st.Name, "XmlCheck") {
				hist = append(hist, st.Name+" (again)")
			} else {
				hist = append(hist, st.Name+" (toggle again)")
			}
			c.Put("history", hist)
			c.C["probe.repeated_setter"]++
			c.Event("set again %s", st.Name)
			if v := probe(fmt.Sprintf("step %d (%s repeated)", i+1, st.Name)); v != nil {
				return v
			}
		}
	}
	// restore every default explicitly
	for _, st := range restoreSteps() {
		st.Do(&model)
	}
	hist = append(hist, "restore every default explicitly")
	c.Put("history", hist)
	if model != defaultModel() {
		panic("C18 model: restore does not reach the default state")
	}
	c.C["probe.restorations_checked"]++
	if v := probe("restoring every default"); v != nil {
		v.Clause = strings.Replace(v.Clause, "C18.behaviour-differs", "C18.restore", 1)
		return v
	}
	if globalsDigest() != freshGlobals {
		c.C["probe.globals_differ_after_restore(diagnostic)"]++
	}
	if setters >= 2 {
		c.Distinct("nontrivial", HashStr(strings.Join(hist, ";")))
	}
	if c.sample == nil {
		c.sample = map[string]interface{}{"history": hist, "families_probed": len(families)}
	}
	return nil
}

func init() {
	register(&Property{
		ID:    "C18",
		Level: "exploration",
		Cases: func(tier string) int {
			if tier == "thorough" {
				return 1000000
			}
			return 24000
		},
		Init: initC18,
		Run:  runC18,
		Rule: "each case = a seeded history of 1..40 option-setter calls (all 21 setters, explicit / argument-less / repeated forms, attribute prefixes, single-character key prefixes, both escaping switches in either order) interleaved with probe steps and ended by restoring every default explicitly; after a probe step every one of 12 probe families (XML decode with and without cast, cast of integer literals, sequence decode with and without cast, JSON decode, XML encode, sequence encode, JSON encode/Copy, leaf queries, sub-key queries and updates, plain path/key queries and NewMap; fixed corpus) is executed and its output hash is compared with the hash recorded for the same (family, model state projected on the options the family may depend on per the documentation); the table starts with the hashes of a fresh process. Non-trivial = at least two setter calls followed by a probe; distinct = distinct histories.",
		Assumptions: []string{
			"the option model and the dependency matrix are my reading of the setters' doc comments (DESIGN.md §3 C18)",
			"histories stay in the property's domain: attribute prefix distinct from the global key prefix; key prefixes are single punctuation characters",
			"no interleaving or fault dimension: the technique contributes seeded histories checked step by step against an executable reference model",
			"comparisons are made within one history and against a fresh process, so that every violation replays from its own tape",
		},
		Components: map[string][]string{
			"real": {"every option setter", "all decoders, encoders and queries probed"},
			"stub": {"none (the reference model runs beside the real package state)"},
		},
	})
}
