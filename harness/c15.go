package main

import (
	"bytes"
	"encoding/json"
	"encoding/xml"
	"fmt"
	"io"
	"strings"

	mxj "github.com/clbanning/mxj/v2"
)

// ---------------------------------------------------------------- references

// refXMLAccepts: does encoding/xml's Token() get from the first start element
// to its matching end without an error?
func refXMLAccepts(x []byte) bool {
	d := xml.NewDecoder(bytes.NewReader(x))
	depth := 0
	for {
		tok, err := d.Token()
		if err != nil {
			return false
		}
		switch tok.(type) {
		case xml.StartElement:
			depth++
		case xml.EndElement:
			depth--
			if depth == 0 {
				return true
			}
		}
	}
}

// refXMLRaw: RawToken loop.  ok=false when the tokenizer fails before the first
// element is complete; preceded=true when a comment, directive or PI comes
// before the root.
func refXMLRaw(x []byte) (ok, preceded bool) {
	d := xml.NewDecoder(bytes.NewReader(x))
	depth := 0
	for {
		tok, err := d.RawToken()
		if err != nil {
			return false, preceded
		}
		switch tok.(type) {
		case xml.StartElement:
			depth++
		case xml.EndElement:
			depth--
			if depth <= 0 {
				return depth == 0, preceded
			}
		case xml.Comment, xml.Directive, xml.ProcInst:
			if depth == 0 {
				preceded = true
			}
		}
	}
}

func refJSONAccepts(x []byte) bool {
	if len(x) == 0 {
		return true
	}
	if x[0] == '[' {
		x = []byte(`{"object":` + string(x) + `}`)
	}
	m := map[string]interface{}{}
	d := json.NewDecoder(bytes.NewReader(x))
	if mxj.JsonUseNumber {
		d.UseNumber()
	}
	return d.Decode(&m) == nil
}

// ---------------------------------------------------------------- damage

var nastyBytes = []byte("<>/&;\"'=!?-[]{}\\ \x00\xff\xc3,:a\n#.*")

func corrupt(t *Tape, doc []byte) ([]byte, string) {
	x := append([]byte(nil), doc...)
	var desc []string
	n := 1 + t.Small(3)
	for i := 0; i < n; i++ {
		if len(x) == 0 {
			x = append(x, nastyBytes[t.Draw(len(nastyBytes))])
			continue
		}
		p := t.Draw(len(x))
		switch t.Draw(8) {
		case 0:
			nb := nastyBytes[t.Draw(len(nastyBytes))]
			desc = append(desc, fmt.Sprintf("set[%d]=%q", p, nb))
			x[p] = nb
		case 1:
			desc = append(desc, fmt.Sprintf("del[%d]", p))
			x = append(x[:p], x[p+1:]...)
		case 2:
			nb := nastyBytes[t.Draw(len(nastyBytes))]
			desc = append(desc, fmt.Sprintf("ins[%d]=%q", p, nb))
			x = append(x[:p], append([]byte{nb}, x[p:]...)...)
		case 3:
			q := p + 1 + t.Small(8)
			if q > len(x) {
				q = len(x)
			}
			desc = append(desc, fmt.Sprintf("dup[%d:%d]", p, q))
			x = append(x[:q], append(append([]byte(nil), x[p:q]...), x[q:]...)...)
		case 4:
			if p+1 < len(x) {
				desc = append(desc, fmt.Sprintf("swap[%d]", p))
				x[p], x[p+1] = x[p+1], x[p]
			}
		case 5:
			s := []string{"</a>", "</x>", "}", "{", "<!--", "-->", "<?", "?>", "]]>", "<![CDATA[", "\"", "</", "<b>", "<!x>"}[t.Draw(14)]
			desc = append(desc, fmt.Sprintf("ins[%d]=%q", p, s))
			x = append(x[:p], append([]byte(s), x[p:]...)...)
		case 6:
			desc = append(desc, fmt.Sprintf("cut[%d:]", p))
			x = x[:p]
		case 7:
			desc = append(desc, fmt.Sprintf("cut[:%d]", p))
			x = x[p:]
		}
	}
	return x, strings.Join(desc, " ")
}

// ---------------------------------------------------------------- T1-T4 on one byte string

func encodeAll(c *Ctx, what string, m mxj.Map) *Violation {
	c.C["probe.t4_encoded"]++
	for _, e := range []struct {
		n string
		f func()
	}{
		{"Xml", func() { m.Xml() }},
		{"XmlIndent", func() { m.XmlIndent("", "  ") }},
		{"Json", func() { m.Json() }},
		{"JsonIndent", func() { m.JsonIndent("", " ") }},
		{"StringIndent", func() { _ = m.StringIndent() }},
		{"LeafNodes", func() { m.LeafNodes() }},
		{"Copy", func() { m.Copy() }},
	} {
		if v := safely(c, what+"→"+e.n, e.f); v != nil {
			v.Clause = "C15.t4-" + strings.TrimPrefix(v.Clause, "C15.")
			return v
		}
	}
	return nil
}

func encodeAllSeq(c *Ctx, what string, m mxj.MapSeq) *Violation {
	c.C["probe.t4_encoded"]++
	for _, e := range []struct {
		n string
		f func()
	}{
		{"MapSeq.Xml", func() { m.Xml() }},
		{"MapSeq.XmlIndent", func() { m.XmlIndent("", "  ") }},
		{"MapSeq.StringIndent", func() { _ = m.StringIndent() }},
	} {
		if v := safely(c, what+"→"+e.n, e.f); v != nil {
			v.Clause = "C15.t4-" + strings.TrimPrefix(v.Clause, "C15.")
			return v
		}
	}
	return nil
}

func checkXMLBytes(c *Ctx, x []byte, cast bool) *Violation {
	c.Eval()
	var m mxj.Map
	var err error
	if v := safely(c, "NewMapXml", func() { m, err = mxj.NewMapXml(x, cast) }); v != nil {
		return v
	}
	acc := refXMLAccepts(x)
	c.Event("xml %x -> %v %x", uint64(fnvOff.Bytes(x)), err, uint64(Digest(asIface(m))))
	c.C["probe.t3_xml_checked"]++
	if acc {
		c.C["probe.t3_xml_accepted"]++
		if err != nil || m == nil {
			return &Violation{"C15.t3-xml-rejects-valid", fmt.Sprintf("encoding/xml tokenizes the first element of %q without error but NewMapXml returned err=%v map=%s", clip(string(x), 200), err, clip(Canon(asIface(m)), 100))}
		}
		return encodeAll(c, "NewMapXml", m)
	}
	if err == nil {
		return &Violation{"C15.t3-xml-accepts-invalid", fmt.Sprintf("encoding/xml rejects %q but NewMapXml returned no error (map=%s)", clip(string(x), 200), clip(Canon(asIface(m)), 200))}
	}
	if m != nil {
		return &Violation{"C15.t3-xml-partial-map", fmt.Sprintf("NewMapXml(%q) returned err=%v together with a Map %s", clip(string(x), 200), err, clip(Canon(m), 200))}
	}
	return nil
}

func checkSeqBytes(c *Ctx, x []byte, cast bool) *Violation {
	c.Eval()
	var m mxj.MapSeq
	var err error
	if v := safely(c, "NewMapXmlSeq", func() { m, err = mxj.NewMapXmlSeq(x, cast) }); v != nil {
		return v
	}
	rawOK, preceded := refXMLRaw(x)
	c.Event("seq %x -> %v %x", uint64(fnvOff.Bytes(x)), err, uint64(Digest(asIface(m))))
	c.C["probe.t3_seq_checked"]++
	if !rawOK && !preceded {
		if err == nil {
			return &Violation{"C15.t3-seq-accepts-invalid", fmt.Sprintf("the raw tokenizer fails before the first element of %q is complete but NewMapXmlSeq returned no error (map=%s)", clip(string(x), 200), clip(Canon(asIface(m)), 200))}
		}
		if m != nil && err != mxj.NoRoot {
			return &Violation{"C15.t3-seq-partial-map", fmt.Sprintf("NewMapXmlSeq(%q) returned err=%v together with a Map %s", clip(string(x), 200), err, clip(Canon(m), 200))}
		}
	}
	if !preceded {
		if refXMLAccepts(x) && rawOK {
			c.C["probe.t3_seq_accepted"]++
			if err != nil || m == nil {
				return &Violation{"C15.t3-seq-rejects-valid", fmt.Sprintf("encoding/xml accepts %q (no comment/directive/PI before the root) but NewMapXmlSeq returned err=%v", clip(string(x), 200), err)}
			}
		} else if err == nil {
			// the strict tokenizer (end tags must match, no EOF inside an element) rejects the first document
			return &Violation{"C15.t3-seq-accepts-invalid", fmt.Sprintf("encoding/xml rejects the first document of %q but NewMapXmlSeq returned no error (map=%s)", clip(string(x), 200), clip(Canon(asIface(m)), 200))}
		}
	}
	if err != nil && err != mxj.NoRoot && m != nil {
		return &Violation{"C15.t3-seq-partial-map", fmt.Sprintf("NewMapXmlSeq(%q) returned err=%v together with a Map %s", clip(string(x), 200), err, clip(Canon(m), 200))}
	}
	if m != nil {
		if v := encodeAllSeq(c, "NewMapXmlSeq", m); v != nil {
			return v
		}
	}
	var m2 mxj.MapSeq
	if v := safely(c, "NewMapFormattedXmlSeq", func() { m2, err = mxj.NewMapFormattedXmlSeq(x, cast) }); v != nil {
		return v
	}
	if m2 != nil {
		if v := encodeAllSeq(c, "NewMapFormattedXmlSeq", m2); v != nil {
			return v
		}
	}
	var out []byte
	if v := safely(c, "BeautifyXml", func() { out, err = mxj.BeautifyXml(x, "", " ") }); v != nil {
		return v
	}
	if err != nil && out != nil {
		return &Violation{"C15.t3-beautify-partial", fmt.Sprintf("BeautifyXml(%q) returned err=%v together with output %q", clip(string(x), 200), err, clip(string(out), 100))}
	}
	return nil
}

func checkJSONBytes(c *Ctx, x []byte) *Violation {
	c.Eval()
	var m mxj.Map
	var err error
	if v := safely(c, "NewMapJson", func() { m, err = mxj.NewMapJson(x) }); v != nil {
		return v
	}
	acc := refJSONAccepts(x)
	c.Event("json %x -> %v %x", uint64(fnvOff.Bytes(x)), err, uint64(Digest(asIface(m))))
	c.C["probe.t3_json_checked"]++
	if acc {
		c.C["probe.t3_json_accepted"]++
		if err != nil {
			return &Violation{"C15.t3-json-rejects-valid", fmt.Sprintf("encoding/json decodes the first value of %q as an object but NewMapJson returned %v", clip(string(x), 200), err)}
		}
		return encodeAll(c, "NewMapJson", m)
	}
	if err == nil {
		return &Violation{"C15.t3-json-accepts-invalid", fmt.Sprintf("encoding/json rejects %q but NewMapJson returned no error (map=%s)", clip(string(x), 200), clip(Canon(asIface(m)), 200))}
	}
	if len(m) != 0 {
		return &Violation{"C15.t3-json-partial-map", fmt.Sprintf("NewMapJson(%q) returned err=%v together with a non-empty Map %s", clip(string(x), 200), err, clip(Canon(m), 200))}
	}
	return nil
}

// checkReaders drives the reader, raw, bulk and file forms over the damaged
// bytes under a drawn delivery schedule (optionally with an injected error).
func checkReaders(c *Ctx, codec int, x []byte, sch *ReadSched) *Violation {
	c.Eval()
	tag := codecNames[codec]
	// what the []byte decoder makes of the same bytes: with a fault-free delivery the
	// reader forms must agree with it on the first document
	faultFree := sch.ErrAt < 0 && (sch.CutAt < 0 || sch.CutAt >= len(x))
	var refMap interface{}
	refAcc, refJudged := false, false
	if faultFree {
		switch codec {
		case 0:
			refAcc, refJudged = refXMLAccepts(x), true
			if refAcc {
				m, e := mxj.NewMapXml(x)
				refAcc, refMap = e == nil, asIface(m)
				refJudged = e == nil
			}
		case 2:
			t := bytes.TrimLeft(x, " \t\r\n")
			if len(t) > 0 && t[0] == '{' && refJSONAccepts(x) {
				m, e := mxj.NewMapJson(x)
				if e == nil {
					refAcc, refJudged, refMap = true, true, asIface(m)
				}
			}
		}
	}
	// plain + raw forms: call until an error comes back (bounded by len+3 calls)
	for form := 0; form < 2; form++ {
		r := NewSimReader(c, "rd", x, sch)
		rd := r.AsReader()
		for call := 0; call < len(x)+3; call++ {
			var m interface{}
			var raw []byte
			var err error
			if v := safely(c, tag+"/"+formNames[form], func() {
				switch codec*2 + form {
				case 0:
					m, err = mxj.NewMapXmlReader(rd)
				case 1:
					m, raw, err = mxj.NewMapXmlReaderRaw(rd)
				case 2:
					m, err = mxj.NewMapXmlSeqReader(rd)
				case 3:
					m, raw, err = mxj.NewMapXmlSeqReaderRaw(rd)
				case 4:
					m, err = mxj.NewMapJsonReader(rd)
				case 5:
					m, raw, err = mxj.NewMapJsonReaderRaw(rd)
				}
			}); v != nil {
				return v
			}
			_ = raw
			m = asIface(m)
			c.Event("%s/%s call %d -> %v %x", tag, formNames[form], call, err, uint64(Digest(m)))
			c.C["probe.reader_calls"]++
			if call == 0 && refJudged {
				c.C["probe.reader_vs_bytes_checked"]++
				if refAcc && (err != nil || Canon(m) != Canon(refMap)) {
					return &Violation{"C15.reader-rejects-valid/" + tag + "/" + formNames[form], fmt.Sprintf("the []byte decoder accepts the first document of %q but the reader form under schedule [%s] returned err=%v map=%s", clip(string(x), 160), sch.String(), err, clip(Canon(m), 120))}
				}
				if !refAcc && err == nil {
					return &Violation{"C15.reader-accepts-invalid/" + tag + "/" + formNames[form], fmt.Sprintf("encoding/xml rejects the first document of %q but the reader form returned no error (map=%s)", clip(string(x), 160), clip(Canon(m), 120))}
				}
			}
			if err != nil {
				if m != nil && err != mxj.NoRoot && codec != 2 {
					return &Violation{"C15.reader-partial-map/" + tag + "/" + formNames[form], fmt.Sprintf("reader form returned err=%v together with a Map %s", err, clip(Canon(m), 200))}
				}
				if codec == 2 && m != nil {
					if mm, ok := m.(mxj.Map); ok && len(mm) > 0 {
						return &Violation{"C15.reader-partial-map/" + tag + "/" + formNames[form], fmt.Sprintf("reader form returned err=%v together with a Map %s", err, clip(Canon(m), 200))}
					}
				}
				if err == io.EOF || r.ErrDelivered {
					break
				}
				if r.Consumed() >= len(x) {
					break
				}
				continue
			}
			if m != nil {
				switch mm := m.(type) {
				case mxj.Map:
					if v := encodeAll(c, tag+"/"+formNames[form], mm); v != nil {
						return v
					}
				case mxj.MapSeq:
					if v := encodeAllSeq(c, tag+"/"+formNames[form], mm); v != nil {
						return v
					}
				}
			}
		}
	}
	if codec == 1 {
		return nil
	}
	// bulk forms; the error handler asks to continue a bounded number of times
	for form := 2; form < 4; form++ {
		r := NewSimReader(c, "rd", x, sch)
		rd := r.AsReader()
		nerr := 0
		mh := func(m mxj.Map, raw []byte) bool { return true }
		eh := func(e error, raw []byte) bool { nerr++; return nerr < 4 && !r.ErrDelivered }
		if v := safely(c, tag+"/"+formNames[form], func() {
			switch codec*2 + form - 2 {
			case 0:
				mxj.HandleXmlReader(rd, func(m mxj.Map) bool { return mh(m, nil) }, func(e error) bool { return eh(e, nil) })
			case 1:
				mxj.HandleXmlReaderRaw(rd, mh, eh)
			case 4:
				mxj.HandleJsonReader(rd, func(m mxj.Map) bool { return mh(m, nil) }, func(e error) bool { return eh(e, nil) })
			case 5:
				mxj.HandleJsonReaderRaw(rd, mh, eh)
			}
		}); v != nil {
			return v
		}
		c.C["probe.bulk_calls"]++
	}
	// file forms
	d := NewSimDisk(c)
	c.disk = d
	d.Set("sim/damaged", x)
	d.ReadSched["sim/damaged"] = &ReadSched{ErrAt: sch.ErrAt, CutAt: -1, Chunk: sch.Chunk, ChunkSeed: sch.ChunkSeed, EOFWithData: sch.EOFWithData, ZeroReads: sch.ZeroReads}
	for raw := 0; raw < 2; raw++ {
		if v := safely(c, tag+"/file", func() {
			switch codec + raw {
			case 0:
				mxj.NewMapsFromXmlFile("sim/damaged")
			case 1:
				mxj.NewMapsFromXmlFileRaw("sim/damaged")
			case 2:
				mxj.NewMapsFromJsonFile("sim/damaged")
			case 3:
				mxj.NewMapsFromJsonFileRaw("sim/damaged")
			}
		}); v != nil {
			return v
		}
		c.C["probe.file_calls"]++
	}
	c.disk = nil
	return nil
}

func checkBytes(c *Ctx, codec int, x []byte, cast bool) *Violation {
	switch codec {
	case 0:
		return checkXMLBytes(c, x, cast)
	case 1:
		return checkSeqBytes(c, x, cast)
	default:
		return checkJSONBytes(c, x)
	}
}

// drawOptions puts the package into a drawn non-default option configuration for one case
// in three (totality is claimed for every configuration; accept/reject does not depend on
// the options drawn here - the XMPP stream switch, which returns before the root's end
// tag is read, is left alone).
func drawOptions(c *Ctx) {
	t := c.T
	if t.Draw(3) != 2 {
		return
	}
	model := defaultModel()
	var names []string
	for i, n := 0, 1+t.Small(4); i < n; i++ {
		st := drawStep(t, &model)
		if strings.HasPrefix(st.Name, "HandleXMPP") {
			continue
		}
		st.Do(&model)
		names = append(names, st.Name)
	}
	c.Put("options", names)
	c.C["probe.non_default_option_cases"]++
}

func runC15(c *Ctx) *Violation {
	t := c.T
	switch top := t.Draw(10); {
	case top >= 8:
		return runC15Args(c)
	case top == 7:
		return runC15Gob(c)
	}
	codec := t.Draw(3)
	cast := t.Draw(3) == 2
	drawOptions(c)
	var doc string
	switch codec {
	case 0:
		doc = genXMLDoc(t, XMLOpts{Prolog: true, Mixed: true})
	case 1:
		doc = genXMLDoc(t, XMLOpts{Seq: true, Mixed: true})
	case 2:
		doc = genJSONDoc(t, JSONOpts{WS: t.Draw(2) == 1, Nulls: true})
	}
	if t.Draw(4) == 3 {
		// a second document behind the first: stray tags / braces land between documents
		doc += interDocWS[t.Small(len(interDocWS))] + doc[:t.Draw(len(doc)+1)]
	}
	c.Put("codec", codecNames[codec])
	c.Put("document", doc)
	c.Put("cast", cast)
	x := []byte(doc)
	L := len(x)
	mode := t.Draw(4)
	switch {
	case mode == 0 && (L <= 300 || c.Tier == "thorough"):
		// (i) every truncation point
		sch := DrawReadSched(t, L, false)
		c.Put("read_schedule", sch.String())
		c.C["probe.docs_fully_truncated"]++
		for cut := 0; cut <= L; cut++ {
			c.C["fault.truncation"]++
			c.Distinct("nontrivial", HashStr(doc).Int(cut).Int(codec))
			if v := checkBytes(c, codec, x[:cut], cast); v != nil {
				c.Put("truncated_at", cut)
				c.Put("input", string(x[:cut]))
				return v
			}
			if cut%4 == t.pos%4 {
				if v := checkReaders(c, codec, x[:cut], sch); v != nil {
					c.Put("truncated_at", cut)
					c.Put("input", string(x[:cut]))
					return v
				}
			}
		}
		if c.sample == nil {
			c.sample = map[string]interface{}{"kind": "every truncation point", "codec": codecNames[codec], "document": clip(doc, 200), "truncations": L + 1}
		}
	case mode == 3:
		// (iii) injected read error while the well-formed / damaged bytes are in flight
		sch := DrawReadSched(t, L, true)
		if sch.ErrAt < 0 && sch.CutAt < 0 {
			sch.ErrAt = t.Draw(L + 1)
		}
		c.Put("read_schedule", sch.String())
		c.C["fault.read_error_or_cut"]++
		c.Distinct("nontrivial", HashStr(doc).Int(int(sch.Hash())))
		if v := checkReaders(c, codec, x, sch); v != nil {
			return v
		}
	default:
		// (ii) seeded local corruption
		y, desc := corrupt(t, x)
		c.Put("damage", desc)
		c.Put("input", string(y))
		c.C["fault.corruption"]++
		c.Distinct("nontrivial", HashStr(string(y)).Int(codec))
		if v := checkBytes(c, codec, y, cast); v != nil {
			return v
		}
		sch := DrawReadSched(t, len(y), t.Draw(4) == 3)
		c.Put("read_schedule", sch.String())
		if v := checkReaders(c, codec, y, sch); v != nil {
			return v
		}
		if c.sample == nil {
			c.sample = map[string]interface{}{"kind": "seeded corruption", "codec": codecNames[codec], "damage": desc, "input": clip(string(y), 200), "read_schedule": sch.String()}
		}
	}
	return nil
}

// canonicalGob encodes {"k1":v1,"k2":v2,"k3":v3} until encoding/gob happens to
// walk the top-level map in ascending key order, which makes the bytes a function
// of the content only (gob walks maps in hash order; 400 tries cannot all miss).
func canonicalGob(m mxj.Map, keys []string) []byte {
	for try := 0; try < 400; try++ {
		g, err := m.Gob()
		if err != nil {
			return nil
		}
		last, ok := -1, true
		for _, k := range keys {
			i := bytes.Index(g, []byte(k))
			if i < last {
				ok = false
				break
			}
			last = i
		}
		if ok {
			return g
		}
	}
	return nil
}

// runC15GobMulti: a multi-key top-level Map whose later entries are damaged, so that
// encoding/gob fails after it has already stored earlier entries.  NewMapGob must
// then return an error and no partially filled Map.
func runC15GobMulti(c *Ctx) *Violation {
	t := c.T
	keys := []string{"k1", "k2", "k3"}
	m := mxj.Map{}
	var descr []string
	for _, k := range keys {
		doc := genJSONDoc(t, JSONOpts{SingleKey: true, MaxDepth: 3, Nulls: t.Draw(3) == 2})
		var v mxj.Map
		var err error
		if vv := safely(c, "gen", func() { v, err = mxj.NewMapJson([]byte(doc)) }); vv != nil || err != nil {
			return nil
		}
		if strings.Contains(doc, "k1") || strings.Contains(doc, "k2") || strings.Contains(doc, "k3") {
			return nil
		}
		m[k] = map[string]interface{}(v)
		descr = append(descr, k+":"+doc)
	}
	stepsBefore := c.Steps
	var g []byte
	c.quiet = true
	v := safely(c, "Gob", func() { g = canonicalGob(m, keys) })
	c.quiet = false
	if v != nil {
		c.Put("map", strings.Join(descr, " "))
		return v
	}
	c.Steps = stepsBefore // the number of retries follows encoding/gob's map walk: not part of the case
	if g == nil {
		return nil
	}
	c.Put("map", strings.Join(descr, " "))
	i2 := bytes.Index(g, []byte("k2"))
	if i2 < 0 {
		return nil
	}
	// damage only bytes of literal strings that come after the second key
	var spots []int
	lits := append(append([]string{"map[string]interface {}", "[]interface {}"}, jsonKeys...), jsonStrs...)
	for _, l := range lits {
		if len(l) == 0 {
			continue
		}
		for from := i2; ; {
			i := bytes.Index(g[from:], []byte(l))
			if i < 0 {
				break
			}
			for k := 0; k < len(l); k++ {
				spots = append(spots, from+i+k)
			}
			from += i + len(l)
		}
	}
	for i := 0; i < 16 && len(spots) > 0; i++ {
		c.Eval()
		y := append([]byte(nil), g...)
		p := spots[t.Draw(len(spots))]
		nb := byte(t.Draw(256))
		if y[p] == nb {
			nb ^= 1
		}
		y[p] = nb
		if t.Draw(3) == 2 {
			y = y[:i2+t.Draw(len(y)-i2)]
		}
		c.C["fault.gob_corruption_after_first_entry"]++
		c.Distinct("nontrivial", fnvOff.Bytes(y))
		var back mxj.Map
		var err error
		if v := safely(c, "NewMapGob", func() { back, err = mxj.NewMapGob(y) }); v != nil {
			c.Put("gob_input", fmt.Sprintf("%x", y))
			return v
		}
		c.Event("gobm %x -> %v %d", uint64(fnvOff.Bytes(y)), err, len(back))
		c.C["probe.gob_partial_checked"]++
		if err != nil && len(back) != 0 {
			c.Put("gob_input", fmt.Sprintf("%x", y))
			return &Violation{"C15.t3-gob-partial-map", fmt.Sprintf("NewMapGob returned err=%v together with a partially decoded Map %s", err, clip(Canon(back), 300))}
		}
		if err == nil {
			if len(back) != len(keys) && len(y) == len(g) {
				// the top-level keys are never damaged: a successful decode has all of them
				c.Put("gob_input", fmt.Sprintf("%x", y))
				return &Violation{"C15.t3-gob-error-swallowed", fmt.Sprintf("NewMapGob returned no error but only %d of %d entries: %s", len(back), len(keys), clip(Canon(back), 300))}
			}
			if v := encodeAll(c, "NewMapGob", back); v != nil {
				return v
			}
		}
	}
	if c.sample == nil {
		c.sample = map[string]interface{}{"kind": "gob: damage after the first entry of a 3-key Map", "map": clip(strings.Join(descr, " "), 200), "gob_bytes": len(g)}
	}
	return nil
}

func runC15Gob(c *Ctx) *Violation {
	t := c.T
	if t.Draw(2) == 1 {
		return runC15GobMulti(c)
	}
	// single-key objects only: encoding/gob walks maps in hash order, so only such
	// values have one encoding and hence a replayable corruption
	doc := genJSONDoc(t, JSONOpts{SingleKey: true, MaxDepth: 5, Nulls: t.Draw(2) == 1})
	var m mxj.Map
	var err error
	if v := safely(c, "gen", func() { m, err = mxj.NewMapJson([]byte(doc)) }); v != nil || err != nil {
		return nil
	}
	var g []byte
	if v := safely(c, "Gob", func() { g, err = m.Gob() }); v != nil {
		return v
	}
	if err != nil || len(g) < 8 {
		return nil
	}
	c.Put("map", Canon(m))
	// Damage is confined to (a) truncation and (b) bytes inside literal strings
	// (keys, values, registered type names): a corrupted *count* makes
	// encoding/gob itself allocate without bound (observed: a 310 GB map bucket
	// array -> "fatal error: out of memory"), which no change to mxj can prevent.
	var spots []int
	lits := append(append([]string{"map[string]interface {}", "[]interface {}"}, jsonKeys...), jsonStrs...)
	for _, l := range lits {
		if len(l) == 0 {
			continue
		}
		for from := 0; ; {
			i := bytes.Index(g[from:], []byte(l))
			if i < 0 {
				break
			}
			for k := 0; k < len(l); k++ {
				spots = append(spots, from+i+k)
			}
			from += i + len(l)
		}
	}
	if len(spots) == 0 {
		return nil
	}
	for i := 0; i < 24; i++ {
		c.Eval()
		y := append([]byte(nil), g...)
		p := spots[t.Draw(len(spots))]
		nb := byte(t.Draw(256))
		if y[p] == nb {
			nb ^= 1
		}
		y[p] = nb
		if t.Draw(3) == 2 {
			y = y[:1+t.Draw(len(y)-1)]
		}
		c.C["fault.gob_corruption"]++
		c.Distinct("nontrivial", fnvOff.Bytes(y))
		var back mxj.Map
		if v := safely(c, "NewMapGob", func() { back, err = mxj.NewMapGob(y) }); v != nil {
			c.Put("gob_input", fmt.Sprintf("%x", y))
			return v
		}
		c.Event("gob %x -> %v", uint64(fnvOff.Bytes(y)), err)
		if err == nil {
			if v := encodeAll(c, "NewMapGob", back); v != nil {
				c.Put("gob_input", fmt.Sprintf("%x", y))
				return v
			}
		}
	}
	if c.sample == nil {
		c.sample = map[string]interface{}{"kind": "gob payload corruption", "map": clip(Canon(m), 160), "gob_bytes": len(g)}
	}
	return nil
}

// ---------------------------------------------------------------- T5 argument strings
//
// This clause has no schedule or fault dimension: it is seeded input generation
// run inside the same harness and counted separately (probe.t5_*).

var pathSegs = []string{"a", "b", "k", "name", "list", "*", "", "-id", "#text", "x y", "a[0]", "b[1]", "list[2]", "*[0]", "a[-1]", "a[99999999999]", "a[", "a]", "a[x]", "[0]", "a[0", "a[]", "a[0][1]", "é", "a[1]x", "a]1[", "]a[0]", "][", "]0[", "a[9223372036854775807]", "a[2147483647]", "a[2147483648]", "a[4294967296]", "b[18446744073709551615]", "list[9223372036854775806]"}
var subKeys = []string{"a:v", "k:1", ":x", "x:", "!a:v", "!:x", "a:*", "!a:*", "a:1:num", "a:true:bool", "a:v:string", "a:b:c:d", "a", "", ":", "!", "a:x:float", "a:t:boolean", "-id:1", "k|v", "a:v:bogus", "::", "!:", "*:*", "a:maybe:bool", "a:NaN:num", "a:0x:float", "a::num", "!!a:v", "!", "a:v:string:x", "a::", "k:1:numeric", "k:T:boolean", "a:v:char", "a:v:text"}
var newVals = []string{"a:v", "k:2:num", "a:true:bool", ":x", "x", "a:b:c:d", "", ":", "a:z:bogus", "k:notnum:num", "#text:t", "k:notbool:bool", "k:1:int", "k:1.5:float", "k::num", "::", "a:1:numeric", "*:v", "a[0]:v"}
var keyPairs = []string{"a:b", "a", "a:b.c", "list:l.m", "*:x", "a:*", "a:b[0]", ":", "a:", ":b", "a:b:c", "", "a.b:c.d", "list[0]:z", "a[-1]:q", "k:a.b.c.", "name:a", "a:a.b", "a:b..c", "a:.b", "a:b.", "b:x.y", "a:x", "*.*:x.y", "a: b", " a:b", "a.b.c:a"}

const pathAlphabet = "ab[]01-.*:x]["

func drawPath(t *Tape) string {
	if t.Draw(4) == 3 {
		// bracket/separator garbage
		n := 1 + t.Small(9)
		b := make([]byte, n)
		for i := range b {
			b[i] = pathAlphabet[t.Draw(len(pathAlphabet))]
		}
		return string(b)
	}
	n := 1 + t.Small(4)
	segs := make([]string, n)
	for i := range segs {
		segs[i] = pathSegs[t.Draw(len(pathSegs))]
	}
	p := strings.Join(segs, ".")
	switch t.Draw(8) {
	case 6:
		p = "." + p
	case 7:
		p += "."
	}
	return p
}

// ---- grammar-based argument strings: built from the keys and values actually present in the
// Map, reserved tokens, numbers at the integer limits and a little garbage

var idxForms = []string{"0", "1", "2", "-1", "99", "2147483647", "2147483648", "4294967295", "4294967296", "9223372036854775807", "9223372036854775808", "18446744073709551615", "", "x", "1.5", "+1", " 1", "0x1", "1e3"}
var typeNames = []string{"string", "char", "text", "bool", "boolean", "float", "float64", "num", "number", "numeric", "int", "", "BOOL", "bogus", "*"}

func collectKeysVals(v interface{}, keys, vals *[]string, depth int) {
	if depth > 6 || len(*keys) > 40 {
		return
	}
	switch x := v.(type) {
	case map[string]interface{}:
		ks := make([]string, 0, len(x))
		for k := range x {
			ks = append(ks, k)
		}
		sortStrings(ks)
		for _, k := range ks {
			*keys = append(*keys, k)
			collectKeysVals(x[k], keys, vals, depth+1)
		}
	case []interface{}:
		for _, e := range x {
			collectKeysVals(e, keys, vals, depth+1)
		}
	case string:
		*vals = append(*vals, x)
	default:
		*vals = append(*vals, fmt.Sprint(x))
	}
}

func sortStrings(s []string) {
	for i := 1; i < len(s); i++ {
		for j := i; j > 0 && s[j] < s[j-1]; j-- {
			s[j], s[j-1] = s[j-1], s[j]
		}
	}
}

func gSeg(t *Tape, keys []string) string {
	k := ""
	switch t.Draw(8) {
	case 0:
		k = "*"
	case 1:
		k = []string{"", "nosuch", "#text", "-id", "!", ":", "[", "]", "a.b"}[t.Draw(9)]
	default:
		if len(keys) > 0 {
			k = keys[t.Draw(len(keys))]
		}
	}
	switch t.Draw(6) {
	case 4:
		k += "[" + idxForms[t.Draw(len(idxForms))] + "]"
	case 5:
		k += []string{"[", "]", "[]", "[0", "0]", "][", "[0][1]", "[[0]]", "]0["}[t.Draw(9)]
	}
	return k
}

func gPath(t *Tape, keys []string) string {
	n := 1 + t.Small(5)
	segs := make([]string, n)
	for i := range segs {
		segs[i] = gSeg(t, keys)
	}
	p := strings.Join(segs, ".")
	switch t.Draw(10) {
	case 8:
		p = "." + p
	case 9:
		p += "."
	}
	return p
}

func gFields(t *Tape, keys, vals []string, sep string) string {
	n := []int{2, 2, 2, 3, 3, 1, 4, 0, 5}[t.Draw(9)]
	f := make([]string, n)
	for i := range f {
		switch {
		case i == 0:
			f[i] = gSeg(t, keys)
			if t.Draw(5) == 4 {
				f[i] = "!" + f[i]
			}
		case i == 1:
			switch t.Draw(4) {
			case 0:
				f[i] = "*"
			case 1:
				f[i] = []string{"", "true", "T", "1", "1.5", "NaN", "Inf", "0x10", "1e999", "maybe"}[t.Draw(10)]
			default:
				if len(vals) > 0 {
					f[i] = vals[t.Draw(len(vals))]
				}
			}
		default:
			f[i] = typeNames[t.Draw(len(typeNames))]
		}
	}
	return strings.Join(f, sep)
}

func runC15Args(c *Ctx) *Violation {
	t := c.T
	doc := genJSONDoc(t, JSONOpts{Nulls: true, MaxDepth: 4})
	if t.Draw(3) == 2 {
		doc = `{"":` + doc + `,"a":{"":"e","b":[1,{"":2}]},"*":{"k":"v","*":[{"a":1}]},"n":[null,{"k":1}],"m":[null],"list":[null,"s",{"a":null}]}`
	}
	var m mxj.Map
	var err error
	if t.Draw(3) == 0 {
		x := genXMLDoc(t, XMLOpts{Mixed: true})
		if v := safely(c, "gen", func() { m, err = mxj.NewMapXml([]byte(x)) }); v != nil || err != nil {
			return nil
		}
		doc = x
	} else if v := safely(c, "gen", func() { m, err = mxj.NewMapJson([]byte(doc)) }); v != nil || err != nil {
		return nil
	}
	c.Put("map_from", doc)
	drawOptions(c)
	if t.Draw(6) == 5 {
		sep := []string{"|", "::", ".", "*", "a", "["}[t.Draw(6)]
		mxj.SetFieldSeparator(sep)
		c.Put("field_separator", sep)
	}
	nops := 1 + t.Small(6)
	c.StepLimit = 200_000 // small Maps: a legitimate call takes a few thousand yields
	var ops []string
	var mkeys, mvals []string
	collectKeysVals(map[string]interface{}(m), &mkeys, &mvals, 0)
	sep := ":"
	if fs, ok := c.R["field_separator"].(string); ok {
		sep = fs
	}
	for i := 0; i < nops; i++ {
		c.Eval()
		grammar := t.Draw(2) == 1
		path := drawPath(t)
		var sk []string
		for j, n := 0, t.Small(3); j < n; j++ {
			sk = append(sk, subKeys[t.Draw(len(subKeys))])
		}
		key := pathSegs[t.Draw(len(pathSegs))]
		if grammar {
			path = gPath(t, mkeys)
			sk = sk[:0]
			for j, n := 0, t.Small(3); j < n; j++ {
				sk = append(sk, gFields(t, mkeys, mvals, sep))
			}
			key = gSeg(t, mkeys)
		}
		var name string
		var f func()
		switch t.Draw(17) {
		case 0:
			name, f = fmt.Sprintf("ValuesForPath(%q,%q)", path, sk), func() { m.ValuesForPath(path, sk...) }
		case 1:
			name, f = fmt.Sprintf("ValueForPath(%q)", path), func() { m.ValueForPath(path) }
		case 2:
			name, f = fmt.Sprintf("Exists(%q,%q)", path, sk), func() { m.Exists(path, sk...) }
		case 3:
			name, f = fmt.Sprintf("ValuesForKey(%q,%q)", key, sk), func() { m.ValuesForKey(key, sk...) }
		case 4:
			name, f = fmt.Sprintf("PathsForKey(%q)", key), func() { m.PathsForKey(key); m.PathForKeyShortest(key) }
		case 5:
			na := t.Draw(2) == 1
			name, f = fmt.Sprintf("LeafNodes(%v)", na), func() { m.LeafNodes(na); m.LeafPaths(na); m.LeafValues(na) }
		case 6:
			name, f = fmt.Sprintf("SetValueForPath(%q)", path), func() { m.SetValueForPath("new", path) }
		case 7:
			name, f = fmt.Sprintf("Remove(%q)", path), func() { m.Remove(path) }
		case 8:
			name, f = fmt.Sprintf("RenameKey(%q,%q)", path, key), func() { m.RenameKey(path, key) }
		case 9:
			nv := newVals[t.Draw(len(newVals))]
			if grammar {
				nv = gFields(t, mkeys, mvals, sep)
			}
			name, f = fmt.Sprintf("UpdateValuesForPath(%q,%q,%q)", nv, path, sk), func() { m.UpdateValuesForPath(nv, path, sk...) }
		case 10:
			nv := map[string]interface{}{key: "nv"}
			name, f = fmt.Sprintf("UpdateValuesForPath(map{%q},%q,%q)", key, path, sk), func() { m.UpdateValuesForPath(nv, path, sk...) }
		case 11:
			var kp []string
			for j, n := 0, 1+t.Small(3); j < n; j++ {
				kp = append(kp, keyPairs[t.Draw(len(keyPairs))])
			}
			if grammar {
				kp = kp[:0]
				for j, n := 0, 1+t.Small(3); j < n; j++ {
					pair := gPath(t, mkeys)
					for q, nq := 0, []int{1, 1, 1, 0, 2}[t.Draw(5)]; q < nq; q++ {
						pair += ":" + gPath(t, append([]string{"x", "y", "z"}, mkeys...))
					}
					kp = append(kp, pair)
				}
			}
			if t.Draw(4) == 3 {
				// new paths that extend each other: the second walks through what the first stored
				src := []string{"a", "b", "n", "m", "list", "k", "*", "name"}
				kp = []string{src[t.Draw(len(src))] + ":x", src[t.Draw(len(src))] + ":x.y", src[t.Draw(len(src))] + ":x.y.z"}[:2+t.Draw(2)]
			}
			// on a private copy: with overlapping new paths NewMap aliases values of its
			// receiver into the result and can even make the receiver cyclic (property
			// C12, not claimed here); that must not poison the calls that follow
			name, f = fmt.Sprintf("NewMap(%q)", kp), func() { mxj.Map(DeepCopy(map[string]interface{}(m)).(map[string]interface{})).NewMap(kp...) }
		case 12:
			name, f = fmt.Sprintf("Elements(%q)", path), func() { m.Elements(path) }
		case 13:
			name, f = fmt.Sprintf("Attributes(%q)", path), func() { m.Attributes(path) }
		case 14:
			name, f = fmt.Sprintf("ValueForKey(%q,%q)", key, sk), func() { m.ValueForKey(key, sk...) }
		case 15:
			name, f = fmt.Sprintf("ValueForPathString(%q)", path), func() { m.ValueForPathString(path); m.ValueOrEmptyForPathString(path) }
		case 16:
			name, f = "Root/Xml/Json after updates", func() { m.Root(); m.Xml(); m.Json() }
		}
		ops = append(ops, name)
		c.Put("operations", ops)
		c.C["probe.t5_calls"]++
		if v := safely(c, strings.SplitN(name, "(", 2)[0], f); v != nil {
			v.Msg += " — call: " + name + " on " + clip(Canon(m), 300)
			return v
		}
		c.Event("%s", name)
	}
	c.Distinct("t5_cases", HashStr(doc+strings.Join(ops, ";")))
	return nil
}

func init() {
	register(&Property{
		ID:    "C15",
		Level: "fault_enumeration",
		Cases: func(tier string) int {
			if tier == "thorough" {
				return 12000000
			}
			return 300000
		},
		Run:  runC15,
		Rule: "each case starts from a seeded well-formed XML / sequence-XML / JSON document (optionally followed by a prefix of itself as a second document) and damages the stored or in-flight bytes: EVERY truncation point 0..L (enumerated), 1-3 seeded local corruptions (set/delete/insert/duplicate/swap of bytes biased to markup characters, stray end tags and braces, invalid UTF-8, NUL, head/tail cuts), or an injected read error / early EOF at a drawn offset; each damaged input goes through the []byte decoders (accept/reject compared with encoding/xml / encoding/json, no partial Map, decode => encodable) and through the reader, Raw, bulk-handler and simulated-file forms under a drawn delivery schedule; one case in ten corrupts gob payloads; two in ten apply generated path / key / sub-key / key-pair / new-value strings to generated Maps (T5: no fault dimension, counted separately under probes.t5_calls). Non-trivial = the damage was applied (truncation, corruption, gob corruption or injected read error); distinct = distinct damaged input x codec.",
		Assumptions: []string{
			"encoding/xml's Token()/RawToken() and encoding/json's Decoder define 'the tokenizer rejects the first document'",
			"for the sequence decoder only the two one-directional accept/reject rules of DESIGN.md §3 C15-T3 are judged",
			"gob inputs are truncations and length-preserving corruptions of string/type-name bytes only: a corrupted element count makes encoding/gob itself allocate without bound (observed fatal out-of-memory inside the standard library), which mxj cannot prevent and this check therefore does not exercise",
			"clause T5 (argument strings) is plain seeded input generation, not simulation coverage",
		},
		Components: map[string][]string{
			"real": {"all mxj decoders and their reader/raw/bulk/file forms", "query and update methods", "encoding/xml", "encoding/json", "encoding/gob"},
			"stub": {"io.Reader endpoint (SimReader)", "os.Open/os.Stat (SimDisk)", "time.Sleep/After"},
		},
	})
}
