package main

import (
	"errors"
	"fmt"
	"io"
	"io/fs"
	"os"
	"sort"
	"strings"
	"time"

	"github.com/clbanning/mxj/v2/verifsim"
)

var errSim = errors.New("verifsim: injected I/O error")

// ReadSched is a sparse description of how a simulated reader delivers its
// bytes.  Every field's zero value is the simplest behaviour.
type ReadSched struct {
	Seeker      int         `json:"seeker,omitempty"`          // 1: also an io.Seeker that works (like a regular *os.File); 2: Seek always fails (like a pipe)
	Bufio       int         `json:"bufio,omitempty"`           // >0: the caller hands mxj its own *bufio.Reader of this size wrapped around the stream
	ByteReader  bool        `json:"byte_reader,omitempty"`     // also implements io.ByteReader
	Chunk       int         `json:"chunk_policy"`              // 0 = as much as asked, 1 = one byte, 2 = seeded 1..7
	ChunkSeed   uint64      `json:"chunk_seed,omitempty"`      // for policy 2
	EOFWithData bool        `json:"eof_with_last_data"`        // final bytes delivered together with io.EOF
	ZeroReads   map[int]int `json:"zero_reads,omitempty"`      // offset -> number of (0,nil) reads before data at that offset
	ZeroEvery   int         `json:"zero_every,omitempty"`      // k>0: one (0,nil) read before every k-th byte offset (a slow but progressing reader)
	ErrAt       int         `json:"error_at"`                  // -1: none; else (0,errSim) once pos reaches it (sticky)
	ErrKind     int         `json:"error_kind,omitempty"`      // 0 a plain I/O error, 1 io.ErrUnexpectedEOF (truncated gzip, short HTTP body), 2 io.ErrClosedPipe
	ErrWithData bool        `json:"error_with_data,omitempty"` // the read that reaches ErrAt returns its bytes TOGETHER with the error (then the error alone, sticky)
	CutAt       int         `json:"cut_at"`                    // -1: none; else the stream ends (EOF) at this offset
}

func (s *ReadSched) String() string {
	zr := ""
	if len(s.ZeroReads) > 0 {
		ks := make([]int, 0, len(s.ZeroReads))
		for k := range s.ZeroReads {
			ks = append(ks, k)
		}
		sort.Ints(ks)
		for _, k := range ks {
			zr += fmt.Sprintf(" z@%d×%d", k, s.ZeroReads[k])
		}
	}
	if s.ZeroEvery > 0 {
		zr += fmt.Sprintf(" zeroEvery=%d", s.ZeroEvery)
	}
	if s.Seeker > 0 {
		zr += []string{"", " seekable", " seek-fails"}[s.Seeker]
	}
	if s.Bufio > 0 {
		zr += fmt.Sprintf(" callers-bufio(%d)", s.Bufio)
	}
	if s.ErrWithData {
		zr += " errWithData"
	}
	if s.ErrKind > 0 {
		zr += []string{"", " err=io.ErrUnexpectedEOF", " err=io.ErrClosedPipe"}[s.ErrKind]
	}
	return fmt.Sprintf("br=%v chunk=%d eofWithData=%v err@%d cut@%d%s", s.ByteReader, s.Chunk, s.EOFWithData, s.ErrAt, s.CutAt, zr)
}

func (s *ReadSched) Hash() Hash {
	return HashStr(s.String()).Int(int(s.ChunkSeed))
}

// DrawReadSched draws a delivery schedule for a stream of length L.
// faults selects whether the fault-injecting dimensions (error, early EOF)
// may be used.
func DrawReadSched(t *Tape, L int, faults bool) *ReadSched {
	s := &ReadSched{ErrAt: -1, CutAt: -1}
	s.ByteReader = t.Draw(4) == 3
	if !s.ByteReader {
		switch t.Draw(8) {
		case 6:
			s.Seeker = 1
		case 7:
			s.Seeker = 2
		}
	}
	s.Chunk = t.Draw(3)
	if s.Chunk == 2 {
		s.ChunkSeed = uint64(t.Draw(1 << 30))
	}
	s.EOFWithData = t.Draw(2) == 1
	nz := t.Small(6)
	for i := 0; i < nz; i++ {
		if s.ZeroReads == nil {
			s.ZeroReads = map[int]int{}
		}
		// mostly 1..3 in a row; sometimes a long idle run (still below the 100 after which bufio,
		// and mxj's own adaptors, give up with io.ErrNoProgress)
		cnt := 1 + t.Small(3)
		if t.Draw(6) == 5 {
			cnt = []int{9, 10, 11, 30, 64, 99}[t.Draw(6)]
		}
		s.ZeroReads[t.Draw(L+1)] = cnt
	}
	if t.Draw(8) == 7 {
		s.ZeroEvery = 1 + t.Small(3)
	}
	if !faults && !s.ByteReader && s.Seeker == 0 && t.Draw(8) == 7 {
		s.Bufio = []int{16, 17, 64, 4096}[t.Draw(4)]
	}
	if faults {
		switch t.Draw(3) {
		case 1:
			s.ErrAt = t.Draw(L + 1)
			s.ErrWithData = t.Draw(3) == 2
			s.ErrKind = t.Small(3)
		case 2:
			s.CutAt = t.Draw(L + 1)
		}
	}
	return s
}

// SimReader is the simulated io.Reader endpoint.
type SimReader struct {
	c       *Ctx
	name    string
	data    []byte
	pos     int
	s       *ReadSched
	zleft   map[int]int
	zeDone  map[int]bool
	zrun    int // empty reads delivered in a row
	reads   int
	eofSent bool
	errSent bool
	end     int
	// fault / probe bookkeeping
	ZeroDelivered        int
	EOFWithDataDelivered bool
	ErrDelivered         bool
	CutDelivered         bool
}

// injected returns the error value of the schedule.
func (s *ReadSched) injected() error {
	switch s.ErrKind {
	case 1:
		return io.ErrUnexpectedEOF
	case 2:
		return io.ErrClosedPipe
	}
	return errSim
}

func NewSimReader(c *Ctx, name string, data []byte, s *ReadSched) *SimReader {
	r := &SimReader{c: c, name: name, data: data, s: s, zleft: map[int]int{}, end: len(data)}
	for k, v := range s.ZeroReads {
		r.zleft[k] = v
	}
	if s.CutAt >= 0 && s.CutAt < r.end {
		r.end = s.CutAt
	}
	return r
}

func (r *SimReader) Consumed() int { return r.pos }

func (r *SimReader) Read(p []byte) (n int, err error) {
	simEnter()
	defer simLeave()
	r.reads++
	defer func() {
		r.c.Event("%s.Read(%d)@%d -> %d,%v", r.name, len(p), r.pos-n, n, err)
		r.c.C["read_events"]++
	}()
	if r.reads > 50*len(r.data)+10000 {
		// a caller that keeps reading forever: make it visible, deterministically
		panic(stepLimit{})
	}
	if len(p) == 0 {
		return 0, nil
	}
	if r.s.ErrAt >= 0 && r.pos >= r.s.ErrAt && r.s.ErrAt <= r.end {
		r.ErrDelivered = true
		r.errSent = true
		return 0, r.s.injected()
	}
	// never 100 empty reads in a row: that is where bufio - and mxj's adaptors - legitimately
	// give up with io.ErrNoProgress
	if z := r.zleft[r.pos]; z > 0 && !r.eofSent && r.zrun < 98 {
		r.zleft[r.pos] = z - 1
		r.ZeroDelivered++
		r.zrun++
		return 0, nil
	}
	if k := r.s.ZeroEvery; k > 0 && r.pos%k == 0 && !r.eofSent && !r.zeDone[r.pos] && r.zrun < 98 {
		if r.zeDone == nil {
			r.zeDone = map[int]bool{}
		}
		r.zeDone[r.pos] = true
		r.ZeroDelivered++
		r.zrun++
		return 0, nil
	}
	r.zrun = 0
	if r.pos >= r.end {
		if r.s.CutAt >= 0 && r.s.CutAt < len(r.data) {
			r.CutDelivered = true
		}
		r.eofSent = true
		return 0, io.EOF
	}
	k := len(p)
	switch r.s.Chunk {
	case 1:
		k = 1
	case 2:
		k = 1 + int((r.s.ChunkSeed*0x9E3779B97F4A7C15+uint64(r.reads)*0xBF58476D1CE4E5B9)>>33)%7
	}
	if k > len(p) {
		k = len(p)
	}
	lim := r.end
	if r.s.ErrAt >= 0 && r.s.ErrAt < lim && r.s.ErrAt > r.pos {
		lim = r.s.ErrAt
	}
	if k > lim-r.pos {
		k = lim - r.pos
	}
	copy(p, r.data[r.pos:r.pos+k])
	r.pos += k
	if r.s.ErrWithData && r.s.ErrAt >= 0 && r.pos == r.s.ErrAt && k > 0 {
		// the last bytes before the failure arrive together with the error
		r.ErrDelivered = true
		r.errSent = true
		r.c.C["fault.read_error_with_data"]++
		return k, r.s.injected()
	}
	if r.pos == r.end && r.s.EOFWithData && !(r.s.ErrAt >= 0 && r.s.ErrAt <= r.end) {
		r.EOFWithDataDelivered = true
		r.eofSent = true
		if r.s.CutAt >= 0 && r.s.CutAt < len(r.data) {
			r.CutDelivered = true
		}
		return k, io.EOF
	}
	return k, nil
}

// SimByteReader additionally satisfies io.ByteReader (like bufio.Reader or
// bytes.Buffer, which mxj then uses without its own adaptor).  ReadByte obeys
// the ByteReader contract: never a byte together with an error.
type SimByteReader struct{ *SimReader }

func (r SimByteReader) ReadByte() (byte, error) {
	var b [1]byte
	for {
		n, err := r.SimReader.Read(b[:])
		if n == 1 {
			return b[0], nil
		}
		if err != nil {
			return 0, err
		}
	}
}

// SimSeekReader additionally satisfies io.Seeker: either a working one (a regular file) or
// one whose Seek always fails (a pipe, a socket, a terminal - still an *os.File in real life).
type SimSeekReader struct{ *SimReader }

func (r SimSeekReader) Seek(offset int64, whence int) (int64, error) {
	simEnter()
	defer simLeave()
	if r.s.Seeker == 2 {
		r.c.Event("%s.Seek(%d,%d) -> illegal seek", r.name, offset, whence)
		r.c.C["fault.seek_refused"]++
		return 0, errors.New("seek: illegal seek")
	}
	np := int64(r.pos)
	switch whence {
	case io.SeekStart:
		np = offset
	case io.SeekCurrent:
		np += offset
	case io.SeekEnd:
		np = int64(r.end) + offset
	}
	if np < 0 {
		return 0, errors.New("seek: negative position")
	}
	if np > int64(r.end) {
		np = int64(r.end)
	}
	r.c.Event("%s.Seek(%d,%d) -> %d", r.name, offset, whence, np)
	r.pos = int(np)
	r.eofSent = false
	return np, nil
}

func (r *SimReader) AsReader() io.Reader {
	if r.s.ByteReader {
		return SimByteReader{r}
	}
	if r.s.Seeker > 0 {
		return SimSeekReader{r}
	}
	return r
}

// ---------------------------------------------------------------- writer

type WriteSched struct {
	Mode int `json:"mode"` // 0 accept all, 1 at most K bytes per call (short writes, keeps accepting), 2 error from byte K on
	K    int `json:"k"`
}

// SimWriter is the simulated io.Writer endpoint.  Got holds the bytes the sink accepted.
type SimWriter struct {
	c       *Ctx
	s       WriteSched
	Offered [][]byte
	Got     []byte
	Calls   int
	Failed  bool // a short write or an error was returned at least once
}

func (w *SimWriter) Write(p []byte) (int, error) {
	simEnter()
	defer simLeave()
	w.Calls++
	w.Offered = append(w.Offered, append([]byte(nil), p...))
	w.c.Event("Write(%d) h=%x", len(p), uint64(fnvOff.Bytes(p)))
	w.c.C["write_events"]++
	if w.Calls > 10000 {
		panic(stepLimit{}) // a writer that retries forever
	}
	switch w.s.Mode {
	case 1:
		k := w.s.K
		if k < 1 {
			k = 1
		}
		if len(p) > k {
			w.Got = append(w.Got, p[:k]...)
			w.Failed = true
			w.c.C["fault.writer_short"]++
			return k, io.ErrShortWrite
		}
	case 2:
		if len(w.Got)+len(p) > w.s.K {
			w.Failed = true
			w.c.C["fault.writer_error"]++
			return 0, errSim
		}
	}
	w.Got = append(w.Got, p...)
	return len(p), nil
}

// ---------------------------------------------------------------- disk

// SimDisk is an in-memory name -> bytes file system under os.Open/Create/Stat.
type SimDisk struct {
	c          *Ctx
	Files      map[string][]byte
	NonRegular map[string]bool
	StatErr    map[string]error
	OpenErr    map[string]error
	CreateErr  map[string]error
	ReadSched  map[string]*ReadSched
	// TearAt >= 0: only that many bytes of everything written to a file after
	// Create become durable (crash during the write).
	TearAt      int
	TearReports bool // the torn write reports an error
	Readers     map[string]*SimReader
	Opens       int
	Closes      int
	WriteCalls  int
	// real-file mode (the edited tree names *os.File explicitly): files live under realDir
	// while mxj handles them; dirty names are read back on the next Get
	realDir string
	dirty   map[string]bool
}

var diskRealMode = os.Getenv("VERIF_DISKMODE") == "real"
var diskRealRoot string

// Real reports whether the disk hands real *os.File values to mxj.  In that mode read
// delivery schedules, EIO and reported write errors cannot be injected.
func (d *SimDisk) Real() bool { return d.realDir != "" }

func (d *SimDisk) realPathOf(name string) string {
	return fmt.Sprintf("%s/%016x", d.realDir, uint64(HashStr(name)))
}

// isRealTemp reports whether name is a real path inside the simulator's directory (a temporary
// file the package created itself in real-file mode): such files are handled by the real os.
func (d *SimDisk) isRealTemp(name string) bool {
	return d.Real() && strings.HasPrefix(name, d.realDir+"/")
}

// Get returns the current content of a file (nil, false if it does not exist).
func (d *SimDisk) Get(name string) ([]byte, bool) {
	if d.Real() && d.dirty[name] {
		delete(d.dirty, name)
		b, err := os.ReadFile(d.realPathOf(name))
		if err != nil {
			delete(d.Files, name)
		} else {
			if d.TearAt >= 0 && len(b) > d.TearAt {
				// crash during the write: only the prefix became durable
				b = b[:d.TearAt]
				d.c.C["fault.torn_write"]++
			}
			d.Files[name] = b
		}
	}
	b, ok := d.Files[name]
	return b, ok
}

func (d *SimDisk) Set(name string, b []byte) {
	delete(d.dirty, name)
	d.Files[name] = b
}

func (d *SimDisk) Del(name string) {
	delete(d.dirty, name)
	delete(d.Files, name)
	if d.Real() {
		os.Remove(d.realPathOf(name))
	}
}

// RealPath is the hook behind verifsim.OpenReal / CreateReal / ... .
func (d *SimDisk) RealPath(op, name string) (string, error) {
	if d.isRealTemp(name) {
		d.c.Event("disk.%s(<temp file>) [real file]", op)
		return name, nil
	}
	d.c.Event("disk.%s(%s) [real file]", op, name)
	d.c.C["disk_events"]++
	p := d.realPathOf(name)
	switch op {
	case "tempdir":
		return d.realDir, nil
	case "open":
		if e := d.OpenErr[name]; e != nil {
			d.c.C["fault.open_error"]++
			return "", e
		}
		b, ok := d.Get(name)
		if !ok {
			os.Remove(p)
			return p, nil // os.Open will report that it does not exist
		}
		if d.NonRegular[name] {
			return d.realDir, nil
		}
		d.Opens++
		d.c.C["probe.real_disk_mode_reads"]++
		if err := os.WriteFile(p, b, 0o644); err != nil {
			return "", err
		}
	case "create":
		if e := d.CreateErr[name]; e != nil {
			d.c.C["fault.create_error"]++
			return "", e
		}
		if b, ok := d.Get(name); ok {
			os.WriteFile(p, b, 0o644) // what is there before the writer opens it
		} else {
			os.Remove(p)
		}
		d.Opens++
		d.dirty[name] = true
		d.Files[name] = nil
	case "remove":
		if _, ok := d.Get(name); !ok {
			return "", &fs.PathError{Op: "remove", Path: name, Err: os.ErrNotExist}
		}
		d.Del(name)
	}
	return p, nil
}

func NewSimDisk(c *Ctx) *SimDisk {
	d := newSimDisk(c)
	if diskRealMode {
		if diskRealRoot == "" {
			root := os.Getenv("VERIF_SCRATCH")
			if root == "" {
				root = os.TempDir()
			}
			diskRealRoot, _ = os.MkdirTemp(root, "simdisk-")
		}
		d.realDir = diskRealRoot
		d.dirty = map[string]bool{}
	}
	return d
}

func newSimDisk(c *Ctx) *SimDisk {
	return &SimDisk{c: c, Files: map[string][]byte{}, NonRegular: map[string]bool{}, StatErr: map[string]error{}, OpenErr: map[string]error{},
		CreateErr: map[string]error{}, ReadSched: map[string]*ReadSched{}, TearAt: -1, Readers: map[string]*SimReader{}}
}

type simInfo struct {
	name string
	size int64
	mode fs.FileMode
}

func (i simInfo) Name() string       { return i.name }
func (i simInfo) Size() int64        { return i.size }
func (i simInfo) Mode() fs.FileMode  { return i.mode }
func (i simInfo) ModTime() time.Time { return time.Time{} }
func (i simInfo) IsDir() bool        { return i.mode.IsDir() }
func (i simInfo) Sys() interface{}   { return nil }

func (d *SimDisk) Stat(name string) (fs.FileInfo, error) {
	if d.isRealTemp(name) {
		d.c.Event("disk.Stat(<temp file>)")
		return os.Stat(name)
	}
	d.c.Event("disk.Stat(%s)", name)
	d.c.C["disk_events"]++
	if e := d.StatErr[name]; e != nil {
		d.c.C["fault.stat_error"]++
		return nil, e
	}
	b, ok := d.Get(name)
	if !ok {
		return nil, &fs.PathError{Op: "stat", Path: name, Err: os.ErrNotExist}
	}
	if d.NonRegular[name] {
		d.c.C["fault.non_regular"]++
		return simInfo{name, 0, fs.ModeDir | 0o755}, nil
	}
	return simInfo{name, int64(len(b)), 0o644}, nil
}

func (d *SimDisk) Open(name string) (*verifsim.File, error) {
	d.c.Event("disk.Open(%s)", name)
	d.c.C["disk_events"]++
	if e := d.OpenErr[name]; e != nil {
		d.c.C["fault.open_error"]++
		return nil, e
	}
	b, ok := d.Files[name]
	if !ok {
		return nil, &fs.PathError{Op: "open", Path: name, Err: os.ErrNotExist}
	}
	d.Opens++
	s := d.ReadSched[name]
	if s == nil {
		s = &ReadSched{ErrAt: -1, CutAt: -1}
	}
	r := NewSimReader(d.c, "file:"+name, b, s)
	d.Readers[name] = r
	return &verifsim.File{Nm: name, ReadFn: r.Read, CloseFn: func() error { d.Closes++; d.c.Event("disk.Close(%s)", name); return nil }}, nil
}

func (d *SimDisk) Create(name string) (*verifsim.File, error) {
	return d.OpenFile(name, os.O_RDWR|os.O_CREATE|os.O_TRUNC)
}

// OpenFile models os.OpenFile on the in-memory disk: O_CREATE, O_TRUNC, O_APPEND,
// O_EXCL and positional writes (an open without O_TRUNC keeps the old content).
func (d *SimDisk) OpenFile(name string, flag int) (*verifsim.File, error) {
	if flag&(os.O_WRONLY|os.O_RDWR|os.O_CREATE|os.O_TRUNC|os.O_APPEND) == 0 {
		return d.Open(name)
	}
	d.c.Event("disk.OpenFile(%s,%#x)", name, flag)
	d.c.C["disk_events"]++
	if e := d.CreateErr[name]; e != nil {
		d.c.C["fault.create_error"]++
		return nil, e
	}
	_, exists := d.Files[name]
	if !exists && flag&os.O_CREATE == 0 {
		return nil, &fs.PathError{Op: "open", Path: name, Err: os.ErrNotExist}
	}
	if exists && flag&os.O_EXCL != 0 && flag&os.O_CREATE != 0 {
		return nil, &fs.PathError{Op: "open", Path: name, Err: os.ErrExist}
	}
	if !exists || flag&os.O_TRUNC != 0 {
		d.Files[name] = []byte{}
	}
	d.Opens++
	written := 0
	pos := 0
	return &verifsim.File{Nm: name,
		WriteFn: func(p []byte) (int, error) {
			simEnter()
			defer simLeave()
			d.WriteCalls++
			d.c.Event("disk.Write(%s,%d) h=%x", name, len(p), uint64(fnvOff.Bytes(p)))
			d.c.C["disk_events"]++
			put := func(q []byte) {
				f := d.Files[name]
				if flag&os.O_APPEND != 0 {
					pos = len(f)
				}
				for len(f) < pos+len(q) {
					f = append(f, 0)
				}
				copy(f[pos:], q)
				pos += len(q)
				d.Files[name] = f
			}
			if d.TearAt >= 0 {
				room := d.TearAt - written
				if room < 0 {
					room = 0
				}
				if len(p) > room {
					put(p[:room])
					written += room
					d.c.C["fault.torn_write"]++
					if d.TearReports {
						return room, errSim
					}
					written += len(p) - room
					return len(p), nil // lost write: reported as successful
				}
			}
			put(p)
			written += len(p)
			return len(p), nil
		},
		ReadFn: func(p []byte) (int, error) {
			simEnter()
			defer simLeave()
			f := d.Files[name]
			if pos >= len(f) {
				return 0, io.EOF
			}
			n := copy(p, f[pos:])
			pos += n
			return n, nil
		},
		CloseFn: func() error { d.Closes++; d.c.Event("disk.Close(%s)", name); return nil },
	}, nil
}

func (d *SimDisk) Remove(name string) error {
	if d.isRealTemp(name) {
		d.c.Event("disk.Remove(<temp file>)")
		return os.Remove(name)
	}
	d.c.Event("disk.Remove(%s)", name)
	if _, ok := d.Files[name]; !ok {
		return &fs.PathError{Op: "remove", Path: name, Err: os.ErrNotExist}
	}
	delete(d.Files, name)
	return nil
}

func (d *SimDisk) Rename(o, n string) error {
	if d.Real() && strings.HasPrefix(o, d.realDir+"/") {
		d.c.Event("disk.Rename(<temp file>,%s)", n) // real temp names differ from run to run
		// a temporary file created by CreateTempReal is renamed over a simulated name
		b, err := os.ReadFile(o)
		if err != nil {
			return err
		}
		os.Remove(o)
		if d.TearAt >= 0 && len(b) > d.TearAt {
			b = b[:d.TearAt]
			d.c.C["fault.torn_write"]++
		}
		d.Set(n, b)
		return nil
	}
	d.c.Event("disk.Rename(%s,%s)", o, n)
	b, ok := d.Get(o)
	if !ok {
		return &fs.PathError{Op: "rename", Path: o, Err: os.ErrNotExist}
	}
	d.Set(n, b)
	d.Del(o)
	return nil
}
