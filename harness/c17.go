package main

import (
	"encoding/json"
	"fmt"
	"os"
	"reflect"
	"regexp"
	"strings"

	mxj "github.com/clbanning/mxj/v2"
)

var storeSite []bool

// siteStores reports whether the yield site follows a statement that can store.
func siteStores(site int) bool {
	if storeSite == nil {
		storeSite = make([]bool, len(mxj.VerifSites))
		for i, d := range mxj.VerifSites {
			storeSite[i] = strings.HasPrefix(d, "write ")
		}
	}
	return site < 0 || site >= len(storeSite) || storeSite[site]
}

func siteName(site int) string {
	if site >= 0 && site < len(mxj.VerifSites) {
		return fmt.Sprintf("#%d %s", site, mxj.VerifSites[site])
	}
	if site == -1 {
		return "task end"
	}
	return fmt.Sprintf("#%d", site)
}

// ---------------------------------------------------------------- operations

type c17op struct {
	Kind   int    `json:"kind"`
	Name   string `json:"op"`
	Shared bool   `json:"on_shared"`
	A, B   string
	Sub    []string
	Doc    string
	N      int
}

type c17env struct {
	c  *Ctx
	S  mxj.Map
	SS mxj.MapSeq
	// task-private state, created per phase
	own mxj.Map
}

var c17OpNames = []string{
	"S.Xml", "S.XmlIndent", "S.Json", "S.JsonIndent", "S.Gob", "S.Copy", "S.StringIndent",
	"S.ValuesForPath", "S.ValueForPath", "S.Exists", "S.ValuesForKey", "S.ValueForKey", "S.PathsForKey", "S.PathForKeyShortest",
	"S.LeafNodes", "S.LeafPaths", "S.LeafValues", "S.Elements", "S.Attributes", "S.Root",
	"SS.Xml", "SS.XmlIndent", "S.XmlWriter", "S.JsonWriter",
	"private NewMapXml", "private NewMapJson", "private NewMapXmlSeq", "private NewMapXmlReader stream",
	"private Copy(S) then mutate the copy", "private Map encode+query", "S.ValuesForPath(subkeys)", "SS.StringIndent", "AnyXml(S)", "Maps{S,S}.XmlString",
	"S.XmlIndentWriter", "S.JsonIndent(safe)",
	"private BeautifyXml", "private JSON reader stream", "private HandleXmlReader stream", "SS.XmlIndentWriter", "S.ValuesForPath(indexed)", "private sequence reader stream",
	"private decode of a deeply nested document",
}

func res(v interface{}, err error) string {
	e := ""
	if err != nil {
		e = "|err=" + err.Error()
	}
	return Canon(v) + e
}

func (o *c17op) exec(e *c17env) (out string) {
	e.c.opSteps = 0 // (in the concurrent phase this makes the bound apply to the tasks' interleaved steps since the last operation start)
	defer func() {
		r := recover()
		gp, gn := e.c.afterCall() // (sequential phase: lets the goroutines the operation started run on)
		if r != nil {
			if _, ok := r.(stepLimit); ok {
				out = "STEP-LIMIT"
				return
			}
			out = fmt.Sprintf("PANIC: %v", r)
		} else if gp != "" {
			out = "PANIC in a goroutine: " + gp
		} else if gn {
			out = "STEP-LIMIT"
		}
	}()
	S, SS := e.S, e.SS
	switch o.Kind {
	case 0:
		b, err := S.Xml()
		return string(b) + res(nil, err)
	case 1:
		b, err := S.XmlIndent(o.A, o.B)
		return string(b) + res(nil, err)
	case 2:
		b, err := S.Json()
		return string(b) + res(nil, err)
	case 3:
		b, err := S.JsonIndent(o.A, o.B)
		return string(b) + res(nil, err)
	case 4:
		b, err := S.Gob() // the gob bytes (even their length) follow encoding/gob's own map walk: only the error is compared
		return fmt.Sprint(len(b) > 0) + res(nil, err)
	case 5:
		cp, err := S.Copy()
		if err == nil {
			if s := sharesStructure(map[string]interface{}(S), map[string]interface{}(cp)); s != "" {
				return "COPY-SHARES:" + s
			}
		}
		return res(cp, err)
	case 6:
		return S.StringIndent()
	case 7:
		v, err := S.ValuesForPath(o.A, o.Sub...)
		return res(v, err)
	case 8:
		v, err := S.ValueForPath(o.A)
		return res(v, err)
	case 9:
		v, err := S.Exists(o.A, o.Sub...)
		return res(v, err)
	case 10:
		v, err := S.ValuesForKey(o.B, o.Sub...)
		return res(v, err)
	case 11:
		v, err := S.ValueForKey(o.B, o.Sub...)
		return res(v, err)
	case 12:
		return res(S.PathsForKey(o.B), nil)
	case 13:
		return S.PathForKeyShortest(o.B)
	case 14:
		return res(S.LeafNodes(o.N == 1), nil)
	case 15:
		return res(S.LeafPaths(), nil)
	case 16:
		return res(S.LeafValues(), nil)
	case 17:
		v, err := S.Elements(o.A)
		return res(v, err)
	case 18:
		v, err := S.Attributes(o.A)
		return res(v, err)
	case 19:
		v, err := S.Root()
		return res(v, err)
	case 20:
		b, err := SS.Xml()
		return string(b) + res(nil, err)
	case 21:
		b, err := SS.XmlIndent(o.A, o.B)
		return string(b) + res(nil, err)
	case 22:
		w := &SimWriter{c: e.c}
		err := S.XmlWriter(w)
		return string(w.Got) + res(nil, err)
	case 23:
		w := &SimWriter{c: e.c}
		err := S.JsonWriter(w)
		return string(w.Got) + res(nil, err)
	case 24:
		m, err := mxj.NewMapXml([]byte(o.Doc), o.N == 1)
		return res(asIface(m), err)
	case 25:
		m, err := mxj.NewMapJson([]byte(o.Doc))
		if err == nil {
			cp, cerr := m.Copy()
			j, jerr := m.JsonIndent("", " ")
			return res(asIface(m), err) + res(cp, cerr) + string(j) + res(nil, jerr)
		}
		return res(asIface(m), err)
	case 26:
		m, err := mxj.NewMapXmlSeq([]byte(o.Doc))
		if err == nil {
			b, e2 := m.Xml()
			return res(asIface(m), err) + string(b) + res(nil, e2)
		}
		return res(asIface(m), err)
	case 27:
		r := NewSimReader(e.c, fmt.Sprintf("rd%x", uint64(HashStr(o.Doc))&0xffff), []byte(o.Doc), &ReadSched{ErrAt: -1, CutAt: -1, Chunk: o.N % 3, ChunkSeed: uint64(o.N), EOFWithData: o.N%2 == 1})
		var sb strings.Builder
		for i := 0; i < 4; i++ {
			m, err := mxj.NewMapXmlReader(r)
			sb.WriteString(res(asIface(m), err) + ";")
			if err != nil {
				break
			}
		}
		return sb.String()
	case 28:
		cp, err := S.Copy()
		if err != nil {
			return res(nil, err)
		}
		cp.SetValueForPath("mutated", o.A)
		cp.UpdateValuesForPath(o.B+":changed", "*")
		cp["extra"] = map[string]interface{}{"k": []interface{}{1, 2}}
		cp.Remove(o.A)
		if o.N%2 == 0 {
			first := ""
			for k := range cp {
				if first == "" || k < first {
					first = k
				}
			}
			delete(cp, first)
		}
		b, err := cp.Xml()
		return string(b) + res(nil, err)
	case 29:
		m, err := mxj.NewMapXml([]byte(o.Doc))
		if err != nil {
			return res(nil, err)
		}
		b, _ := m.XmlIndent("", " ")
		l := m.LeafNodes()
		v, _ := m.ValuesForPath("*.*")
		cp, cerr := m.Copy() // encoders on data that differs from task to task: shared scratch state shows as mixed-up results
		x, _ := m.Xml()
		g, gerr := m.Gob()
		back, _ := mxj.NewMapGob(g)
		m.SetValueForPath("x", "a.zz")
		j, _ := m.Json()
		return string(b) + res(l, nil) + res(v, nil) + string(j) + res(cp, cerr) + string(x) + res(normGob(back), gerr)
	case 30:
		v, err := S.ValuesForPath(o.A, o.B+":*")
		return res(v, err)
	case 31:
		return SS.StringIndent() + S.StringIndentNoTypeInfo()
	case 32:
		b, err := mxj.AnyXml(map[string]interface{}(S), "root")
		return string(b) + res(nil, err)
	case 33:
		s, err := mxj.Maps{S, S}.XmlString()
		return s + res(nil, err)
	case 34:
		w := &SimWriter{c: e.c}
		err := S.XmlIndentWriter(w, o.A, o.B)
		return string(w.Got) + res(nil, err)
	case 35:
		b, err := S.JsonIndent(o.A, o.B, true)
		return string(b) + res(nil, err)
	case 36:
		b, err := mxj.BeautifyXml([]byte(o.Doc), "", " ")
		m, err2 := mxj.NewMapFormattedXmlSeq([]byte(o.Doc))
		return string(b) + res(nil, err) + res(asIface(m), err2)
	case 37:
		r := NewSimReader(e.c, fmt.Sprintf("jr%x", uint64(HashStr(o.Doc))&0xffff), []byte(o.Doc), &ReadSched{ErrAt: -1, CutAt: -1, Chunk: o.N % 3, ChunkSeed: uint64(o.N), EOFWithData: o.N%2 == 0, ZeroEvery: o.N % 3})
		var sb strings.Builder
		for i := 0; i < 4; i++ {
			m, raw, err := mxj.NewMapJsonReaderRaw(r)
			sb.WriteString(res(asIface(m), err) + string(raw) + ";")
			if err != nil {
				break
			}
		}
		return sb.String()
	case 38:
		r := NewSimReader(e.c, fmt.Sprintf("hr%x", uint64(HashStr(o.Doc))&0xffff), []byte(o.Doc), &ReadSched{ErrAt: -1, CutAt: -1, Chunk: o.N % 3, ChunkSeed: uint64(o.N), EOFWithData: o.N%2 == 1})
		var sb strings.Builder
		err := mxj.HandleXmlReaderRaw(r, func(m mxj.Map, raw []byte) bool {
			sb.WriteString(res(asIface(m), nil) + string(raw) + ";")
			return true
		},
			func(err error, raw []byte) bool { sb.WriteString("E:" + err.Error()); return false })
		return sb.String() + res(nil, err)
	case 39:
		w := &SimWriter{c: e.c}
		err := SS.XmlIndentWriter(w, o.A, o.B)
		return string(w.Got) + res(nil, err)
	case 40:
		p := o.A
		if i := strings.LastIndexByte(p, '.'); i > 0 {
			p = p[:i] + "[0]" + p[i:]
		}
		v, err := S.ValuesForPath(p)
		return res(v, err)
	case 42:
		// thousands of levels deep: per-call state that is really per-package (depth counters,
		// recursion guards) adds up across goroutines
		d := 1200 + 400*o.N
		doc := strings.Repeat("<a>", d) + "x" + strings.Repeat("</a>", d)
		m, err := mxj.NewMapXml([]byte(doc))
		depth := 0
		for v := interface{}(map[string]interface{}(m)); ; depth++ {
			mm, ok := v.(map[string]interface{})
			if !ok {
				break
			}
			v = mm["a"]
		}
		ms, err2 := mxj.NewMapXmlSeq([]byte(doc))
		return fmt.Sprintf("depth=%d %v seq=%v %v", depth, err, ms != nil, err2)
	case 41:
		r := NewSimReader(e.c, fmt.Sprintf("sr%x", uint64(HashStr(o.Doc))&0xffff), []byte(o.Doc), &ReadSched{ErrAt: -1, CutAt: -1, Chunk: o.N % 3, ChunkSeed: uint64(o.N), EOFWithData: o.N%2 == 1})
		var sb strings.Builder
		for i := 0; i < 4; i++ {
			m, raw, err := mxj.NewMapXmlSeqReaderRaw(r)
			sb.WriteString(res(asIface(m), err) + string(raw) + ";")
			if err != nil {
				break
			}
		}
		return sb.String()
	}
	return "?"
}

// normGob maps the nil containers encoding/gob produces for empty ones back to empty
// (open finding C19-gob-empty-container-becomes-nil is not this property's business).
func normGob(v interface{}) interface{} {
	switch x := v.(type) {
	case mxj.Map:
		return normGob(map[string]interface{}(x))
	case map[string]interface{}:
		if x == nil {
			return map[string]interface{}{}
		}
		o := make(map[string]interface{}, len(x))
		for k, e := range x {
			o[k] = normGob(e)
		}
		return o
	case []interface{}:
		o := make([]interface{}, len(x))
		for i, e := range x {
			o[i] = normGob(e)
		}
		return o
	}
	return v
}

// sharesStructure reports a map or slice backing store reachable from both values.
func sharesStructure(a, b interface{}) string {
	seen := map[uintptr]bool{}
	var walk func(v interface{}, mark bool) string
	walk = func(v interface{}, mark bool) string {
		switch x := v.(type) {
		case map[string]interface{}:
			if x == nil {
				return ""
			}
			p := reflect.ValueOf(x).Pointer()
			if mark {
				seen[p] = true
			} else if seen[p] {
				return "a map is shared between the copy and the original"
			}
			for _, e := range x {
				if s := walk(e, mark); s != "" {
					return s
				}
			}
		case []interface{}:
			if len(x) > 0 {
				p := reflect.ValueOf(x).Pointer()
				if mark {
					seen[p] = true
				} else if seen[p] {
					return "a list is shared between the copy and the original"
				}
			}
			for _, e := range x {
				if s := walk(e, mark); s != "" {
					return s
				}
			}
		}
		return ""
	}
	walk(a, true)
	return walk(b, false)
}

// ---------------------------------------------------------------- fast globals digest (S3)

var fastGlobals []interface{}
var fastGlobalNames []string

func initFastGlobals() {
	g := mxj.VerifGlobals()
	for _, s := range pristine {
		if isSyncType(s.val.Type()) {
			continue
		}
		fastGlobals = append(fastGlobals, g[s.name])
		fastGlobalNames = append(fastGlobalNames, s.name)
	}
}

func fastGlobalsDigest() Hash {
	h := fnvOff
	for _, p := range fastGlobals {
		switch x := p.(type) {
		case *bool:
			if *x {
				h = h.Int(1)
			} else {
				h = h.Int(0)
			}
		case *int:
			h = h.Int(*x)
		case *string:
			h = h.Str(*x)
		case *func(string) bool:
			if *x == nil {
				h = h.Int(0)
			} else {
				h = h.Int(1)
			}
		default:
			h = digestValue(h, reflect.ValueOf(p).Elem(), 0)
		}
	}
	return h
}

func changedGlobals(base []Hash) string {
	var d []string
	for i, p := range fastGlobals {
		if digestValue(fnvOff, reflect.ValueOf(p).Elem(), 0) != base[i] {
			d = append(d, fastGlobalNames[i])
		}
	}
	return strings.Join(d, ",")
}

func perGlobalDigests() []Hash {
	out := make([]Hash, len(fastGlobals))
	for i, p := range fastGlobals {
		out[i] = digestValue(fnvOff, reflect.ValueOf(p).Elem(), 0)
	}
	return out
}

// ---------------------------------------------------------------- instrumentation facts

type instrFacts struct {
	AccSites       int      `json:"access_announcements"`
	RaceUnmodelled []string `json:"sync_uses_not_modelled_by_race_detector"`
	GoStmts        int      `json:"go_statements"`
	SyncUses       []string `json:"sync_uses"`
	ChanUses       int      `json:"chan_uses"`
	SelectStmts    int      `json:"select_statements"`
	Unmodelled     []string `json:"unmodelled_blocking"`
}

var noPreemption bool

var facts instrFacts
var s3Enabled = true
var s3Note = "S3 armed: the package contains no synchronisation primitive"

func loadFacts() {
	if p := os.Getenv("VERIF_INSTR"); p != "" {
		if b, err := os.ReadFile(p); err == nil {
			json.Unmarshal(b, &facts)
		}
	}
	if len(facts.SyncUses) > 0 || facts.GoStmts > 0 || facts.SelectStmts > 0 {
		s3Enabled = false
		s3Note = fmt.Sprintf("S3 switched off: the instrumented package uses synchronisation primitives (%v, %d go statements, %d select) which the package-state rule does not model; S1/S2/S4/S5 remain armed; Mutex/RWMutex Lock/RLock and Once.Do are rewritten to cooperative versions", facts.SyncUses, facts.GoStmts, facts.SelectStmts)
	}
	if facts.GoStmts > 0 && len(facts.Unmodelled) == 0 {
		s3Note += "; the package starts goroutines of its own: each is one more cooperative task of the seeded scheduler (go, WaitGroup, channel operations and locks are rewritten), runs replay exactly"
	}
	if facts.GoStmts > 0 && len(facts.Unmodelled) > 0 {
		s3Note += "; the package starts goroutines of its own AND blocks in ways the scheduler does not model: its goroutines are real, hooks are serialised by a mutex, real locks are used, runs are not replayable bit for bit and the determinism self-check is skipped"
	}
	if len(facts.Unmodelled) > 0 {
		noPreemption = true
		s3Note += fmt.Sprintf("; PREEMPTION SWITCHED OFF: the package blocks in ways the scheduler does not model (%v), tasks run to completion one after another", facts.Unmodelled)
	}
}

// ---------------------------------------------------------------- the case

func runC17(c *Ctx) *Violation {
	t := c.T
	// shared values
	var S mxj.Map
	var SS mxj.MapSeq
	var err error
	var sdoc string
	if t.Draw(3) == 0 {
		sdoc = genJSONDoc(t, JSONOpts{Nulls: true, MaxDepth: 4})
		if v := safely(c, "gen", func() { S, err = mxj.NewMapJson([]byte(sdoc)) }); v != nil || err != nil {
			return nil
		}
	} else {
		sdoc = genXMLDoc(t, XMLOpts{Mixed: true, MaxKids: 5, MaxDepth: 4, Wide: t.Draw(4) == 3})
		if v := safely(c, "gen", func() { S, err = mxj.NewMapXml([]byte(sdoc), t.Draw(3) == 2) }); v != nil || err != nil {
			return nil
		}
	}
	ssdoc := genXMLDoc(t, XMLOpts{Seq: true, Mixed: true})
	if v := safely(c, "gen", func() { SS, err = mxj.NewMapXmlSeq([]byte(ssdoc)) }); v != nil || err != nil {
		return nil
	}
	if t.Draw(3) == 2 {
		// the shared MapSeq after a JSON round trip: every "#seq" is a float64
		var cp mxj.Map
		if v := safely(c, "gen", func() { cp, err = mxj.Map(SS).Copy() }); v != nil || err != nil {
			return nil
		}
		SS = mxj.MapSeq(cp)
		c.Put("shared_mapseq_through_json", true)
	}
	escape := t.Draw(3) == 2
	// a fixed, drawn option configuration (one case in four): "options left alone" means not
	// changed while goroutines run, not that they have their default values
	var optSteps []optStep
	if t.Draw(4) == 3 {
		dummy := defaultModel()
		var names []string
		for i, n := 0, 1+t.Small(3); i < n; i++ {
			st := drawStep(t, &dummy)
			st.Do(&dummy)
			optSteps = append(optSteps, st)
			names = append(names, st.Name)
		}
		resetPackageState()
		c.Put("options", names)
	}
	applyOpts := func() {
		if escape {
			mxj.XMLEscapeChars(true)
		}
		m := defaultModel()
		for _, st := range optSteps {
			st.Do(&m)
		}
	}
	applyOpts()
	c.Put("shared_map_from", sdoc)
	c.Put("shared_mapseq_from", ssdoc)

	// candidate paths / keys for the queries
	var paths, keys []string
	if v := safely(c, "gen", func() { paths = S.LeafPaths() }); v != nil {
		return nil
	}
	paths = append(paths, "*", "*.*", "a.b", "nosuch", "*.*.*")
	for _, p := range S.LeafPaths() {
		segs := strings.Split(p, ".")
		for _, s := range segs {
			if i := strings.IndexByte(s, '['); i >= 0 {
				s = s[:i]
			}
			keys = append(keys, s)
		}
		if len(segs) > 1 {
			paths = append(paths, strings.Join(segs[:len(segs)-1], "."), segs[0]+".*")
		}
	}
	keys = append(keys, "*", "nosuch")
	idx := regexp.MustCompile(`\[\d+\]`)
	for _, p := range S.LeafPaths() {
		if q := idx.ReplaceAllString(p, ""); q != p {
			paths = append(paths, q)
			if i := strings.LastIndexByte(q, '.'); i > 0 {
				paths = append(paths, q[:i], q[:i]+".*")
			}
		}
	}
	// a small per-case pool of paths: tasks meet on the same paths (and on a few distinct indexed ones)
	if len(paths) > 6 {
		var pool []string
		var indexed []string
		for _, p := range paths {
			if strings.Contains(p, "[") {
				indexed = append(indexed, p)
			}
		}
		for i := 0; i < 3 && len(indexed) > 0; i++ {
			pool = append(pool, indexed[t.Draw(len(indexed))])
		}
		for len(pool) < 6 {
			pool = append(pool, paths[t.Draw(len(paths))])
		}
		paths = pool
	}
	// a small pool of sub-key specifications shared by all tasks (so that two tasks use the same one)
	specs := []string{keys[t.Draw(len(keys))] + ":*", "!" + keys[t.Draw(len(keys))] + ":v", keys[t.Draw(len(keys))] + ":1:num"}

	ntasks := 2 + t.Small(5)
	progs := make([][]*c17op, ntasks)
	pols := make([]*iterPolicy, ntasks)
	// one case in three has a focus: half of all operations are of one kind, so that several
	// tasks are inside the same function at the same time
	focus := -1
	if t.Draw(3) == 0 {
		focus = t.Draw(len(c17OpNames))
	}
	castAll := t.Draw(3) == 0 // every private XML decode of this case casts
	for i := range progs {
		nops := 1 + t.Small(4)
		for j := 0; j < nops; j++ {
			o := &c17op{Kind: t.Draw(len(c17OpNames))}
			if t.Draw(3) > 0 && (o.Kind == 28 || o.Kind == 29) {
				o.Kind = t.Draw(24) // bias towards the shared value
			}
			if o.Kind == 42 && t.Draw(3) > 0 {
				o.Kind = 24 // deep documents are expensive: keep them rare
			}
			if focus >= 0 && t.Draw(2) == 0 {
				o.Kind = focus
			}
			o.Name = c17OpNames[o.Kind]
			o.Shared = o.Kind < 24 || (o.Kind >= 30 && o.Kind <= 35) || o.Kind == 39 || o.Kind == 40
			o.A = paths[t.Draw(len(paths))]
			o.B = keys[t.Draw(len(keys))]
			o.N = t.Draw(6)
			if castAll && o.Kind == 24 {
				o.N = 1
			}
			if t.Draw(3) == 0 {
				o.Sub = []string{specs[t.Draw(len(specs))]}
				if t.Draw(3) == 0 {
					o.Sub = append(o.Sub, specs[t.Draw(len(specs))])
				}
			}
			switch o.Kind {
			case 1, 3, 21, 34, 35, 39:
				o.A, o.B = indentStrs[t.Draw(len(indentStrs))], indentStrs[1+t.Draw(len(indentStrs)-1)]
			case 36:
				o.Doc = genXMLDoc(t, XMLOpts{Seq: true, Mixed: true, MaxDepth: 2})
			case 37:
				o.Doc = genJSONDoc(t, JSONOpts{WS: true, MaxDepth: 2}) + "\n" + genJSONDoc(t, JSONOpts{MaxDepth: 2})
			case 38:
				o.Doc = genXMLDoc(t, XMLOpts{MaxDepth: 2}) + " " + genXMLDoc(t, XMLOpts{MaxDepth: 2, Mixed: true})
			case 41:
				o.Doc = genXMLDoc(t, XMLOpts{Seq: true, MaxDepth: 2}) + "\n" + genXMLDoc(t, XMLOpts{Seq: true, MaxDepth: 2})
			case 24, 29:
				o.Doc = genXMLDoc(t, XMLOpts{Mixed: true, Small: true, MaxDepth: 2})
			case 25:
				o.Doc = genJSONDoc(t, JSONOpts{MaxDepth: 2})
			case 26:
				o.Doc = genXMLDoc(t, XMLOpts{Seq: true, MaxDepth: 2})
			case 27:
				o.Doc = genXMLDoc(t, XMLOpts{MaxDepth: 2}) + "\n" + genXMLDoc(t, XMLOpts{MaxDepth: 2})
			}
			progs[i] = append(progs[i], o)
		}
		switch t.Draw(4) {
		case 0:
			pols[i] = &iterPolicy{Kind: 0}
		case 1:
			pols[i] = &iterPolicy{Kind: 1}
		case 2:
			pols[i] = &iterPolicy{Kind: 2, R: 1 + t.Draw(4)}
		default:
			pols[i] = &iterPolicy{Kind: 3, Seed: uint64(t.Draw(1 << 30))}
		}
	}
	if c.Render {
		var pr []string
		for i, p := range progs {
			var names []string
			for _, o := range p {
				n := o.Name
				switch {
				case o.Doc != "":
					n += "(" + clip(o.Doc, 60) + ")"
				case o.Kind >= 7 && o.Kind <= 18 || o.Kind == 30 || o.Kind == 28 || o.Kind == 40:
					n += fmt.Sprintf("(%q,%q,%q)", o.A, o.B, o.Sub)
				}
				names = append(names, n)
			}
			pr = append(pr, fmt.Sprintf("task %d [iteration %s]: %s", i, pols[i].String(), strings.Join(names, " ; ")))
		}
		c.Put("task_programs", pr)
	}

	d0, dss0, g0 := DigestCap(map[string]interface{}(S)), DigestCap(map[string]interface{}(SS)), fastGlobalsDigest()
	var gBase []Hash
	if s3Enabled {
		gBase = perGlobalDigests()
	}
	env := &c17env{c: c, S: S, SS: SS}
	var curPol *iterPolicy
	c.mapOrderFn = func(site, n int) []int {
		if curPol == nil {
			return nil
		}
		if c.amb != nil && c.amb.cur != nil && c.amb.cur.child {
			return c.amb.cur.childPol(curPol).order(site, n)
		}
		return curPol.order(site, n)
	}

	// ---- sequential reference run (S1 baseline) with S5 after every operation
	seq := make([][]string, ntasks)
	total := 0
	for i, p := range progs {
		pols[i].reset()
		curPol = pols[i]
		if c.amb != nil {
			c.amb.tasks[0].nspawned = 0 // goroutines started by this task's operations are numbered as in the concurrent phase
		}
		for _, o := range p {
			before := c.Steps
			c.Eval()
			out := o.exec(env)
			total += int(c.Steps - before)
			seq[i] = append(seq[i], out)
			c.C["probe.s5_checked"]++
			if DigestCap(map[string]interface{}(S)) != d0 || DigestCap(map[string]interface{}(SS)) != dss0 {
				now := Canon(map[string]interface{}(S))
				if DigestCap(map[string]interface{}(SS)) != dss0 {
					now = Canon(map[string]interface{}(SS))
				}
				return &Violation{"C17.s5-receiver-modified/" + o.Name, fmt.Sprintf("%s changed its receiver (sequential execution): now %s", o.Name, clip(now, 400))}
			}
			if strings.HasPrefix(out, "COPY-SHARES:") {
				return &Violation{"C17.s4-copy-shares", strings.TrimPrefix(out, "COPY-SHARES:")}
			}
			if strings.HasPrefix(out, "PANIC in a goroutine: DATA RACE: ") {
				return &Violation{"C17.s6-data-race/" + o.Name, "among the goroutines started by one call of " + o.Name + ": " + strings.TrimPrefix(out, "PANIC in a goroutine: DATA RACE: ")}
			}
			if s3Enabled && fastGlobalsDigest() != g0 {
				return &Violation{"C17.s3-package-state/" + o.Name, fmt.Sprintf("%s wrote package-level state (%s) although no option setter was called: an unsynchronised write that races with any concurrent caller", o.Name, changedGlobals(gBase))}
			}
		}
	}
	curPol = nil

	// ---- concurrent run under the seeded scheduler, from a pristine package state: the
	// sequential run must not pre-warm caches or lazily initialised tables, whose first
	// use is exactly where unsynchronised code goes wrong
	resetPackageState()
	applyOpts()
	sp := drawSchedPolicy(t, ntasks, total+1)
	c.Put("schedule_policy", sp.String())
	s := newSched(c, sp)
	s.noPreempt = noPreemption
	conc := make([][]string, ntasks)
	for i := range progs {
		i := i
		s.add(func() {
			for _, o := range progs[i] {
				st := s.tasks[i]
				st.midShared = o.Shared
				// a deep private decode takes ~10^5 yields and touches no shared value: the invariants
				// are evaluated at the other tasks' yields only
				st.cheap = o.Kind == 42
				out := o.exec(env)
				st.midShared, st.cheap = false, false
				conc[i] = append(conc[i], out)
			}
		})
		pols[i].reset()
	}
	c.mapOrderFn = func(site, n int) []int {
		if s.cur == nil {
			return nil
		}
		if s.cur.child {
			return s.cur.childPol(pols[s.cur.root]).order(site, n)
		}
		return pols[s.cur.id].order(site, n)
	}
	s.invariant = func(site int) *Violation {
		// always right after a statement that can store (assignment to shared memory, delete, call
		// statement); at function-entry and loop yields every fourth time - a store that happened inside
		// an expression is then seen a few yields later, and in any case at the end of the run
		if !siteStores(site) && s.step&3 != 0 {
			return nil
		}
		c.C["probe.invariant_evaluations"]++
		if DigestCap(map[string]interface{}(S)) != d0 || DigestCap(map[string]interface{}(SS)) != dss0 {
			return &Violation{"C17.s2-shared-receiver-written", fmt.Sprintf("the shared receiver was written during a read-only operation (task %d, %s): a data race with every other reader", s.cur.id, siteName(site))}
		}
		if s3Enabled && fastGlobalsDigest() != g0 {
			return &Violation{"C17.s3-package-state", fmt.Sprintf("package-level state (%s) was written on a decode/encode/query path (task %d, %s): unsynchronised shared state", changedGlobals(gBase), s.cur.id, siteName(site))}
		}
		return nil
	}
	c.Eval()
	// S6: accesses of different tasks to one package-level variable, one of them a write, must be
	// ordered by synchronisation (happens-before detector, R8)
	armRace(func(msg string) {
		if s.viol == nil {
			s.viol = &Violation{"C17.s6-data-race", msg}
		}
		s.stop = true
	})
	s.run()
	disarmRace(c)
	c.mapOrderFn = nil
	c.Put("interleaving", s.trace)
	c.C["context_switches"] += int64(s.switches)
	c.Distinct("interleavings", s.ilHash.Int(ntasks))
	for site := range s.preemptedSites {
		c.Distinct("preempted_sites", Hash(site))
	}
	if s.overlap {
		c.C["probe.overlapping_shared_ops"]++
		c.Distinct("nontrivial", HashStr(sdoc).Int(int(s.ilHash)))
	}
	if s.viol != nil {
		return s.viol
	}
	if DigestCap(map[string]interface{}(S)) != d0 || DigestCap(map[string]interface{}(SS)) != dss0 {
		return &Violation{"C17.s2-shared-receiver-written", "the shared receiver differs after the concurrent run"}
	}
	// S1
	for i := range progs {
		for j := range progs[i] {
			c.C["probe.s1_checked"]++
			if j >= len(conc[i]) || conc[i][j] != seq[i][j] {
				got := "<missing>"
				if j < len(conc[i]) {
					got = conc[i][j]
				}
				return &Violation{"C17.s1-result-differs/" + progs[i][j].Name, fmt.Sprintf("task %d operation %d (%s) returned a different result when interleaved with other goroutines:\n sequential: %s\n concurrent: %s", i, j+1, progs[i][j].Name, clip(seq[i][j], 400), clip(got, 400))}
			}
		}
	}
	if c.sample == nil && s.switches > 0 {
		var pr []string
		for i, p := range progs {
			var names []string
			for _, o := range p {
				names = append(names, o.Name)
			}
			pr = append(pr, fmt.Sprintf("task %d: %s", i, strings.Join(names, "; ")))
		}
		c.sample = map[string]interface{}{"shared_map_from": clip(sdoc, 160), "tasks": pr, "schedule_policy": sp.String(), "context_switches": s.switches, "steps": s.step}
	}
	return nil
}

func init() {
	register(&Property{
		ID:    "C17",
		Level: "exploration",
		Cases: func(tier string) int {
			if tier == "thorough" {
				return 3000000
			}
			return 250000
		},
		Init: func() {
			initFastGlobals()
			loadFacts()
		},
		Run: runC17,
		Notes: func() map[string]string {
			loadFacts()
			s6 := fmt.Sprintf("S6 armed: %d access announcements, every use of sync, sync/atomic and channels in the package is one of the modelled forms", facts.AccSites)
			if !raceArmed() {
				s6 = fmt.Sprintf("S6 switched off: access announcements=%d, blocking the scheduler does not model=%v, sync uses the race detector does not model=%v", facts.AccSites, facts.Unmodelled, facts.RaceUnmodelled)
			}
			return map[string]string{"s3_package_state_rule": s3Note, "s6_race_detector": s6}
		},
		Rule: "each case = 2..6 tasks (real goroutines) x 1..4 operations each, drawn from 43 operation kinds: read-only encoders/queries on ONE shared Map and ONE shared MapSeq, decodes of private documents (incl. a private simulated reader stream), and mutation of a private Copy of the shared Map; every operation is first executed alone (sequential reference, receiver digest checked after each: S5, Copy aliasing walk: S4) and then all tasks run under a cooperative scheduler that hands control over only at the ~430 generated yield points, following one of four seeded policies (preemption-bounded, PCT priorities, random switch, round-robin quantum); at EVERY yield the shared receivers' digest (S2) and the digest of every package-level variable (S3) are compared with their initial value, before every statement that touches a package-level variable a vector-clock detector checks that the access is ordered with the other tasks' accesses to it (S6, data race), and afterwards every operation's result must equal its sequential result (S1). Each task has its own seeded map-iteration policy. Non-trivial = at some yield two tasks were simultaneously inside operations on the shared value; distinct = distinct (shared value, interleaving hash).",
		Assumptions: []string{
			"scheduling points exist only in mxj's root package; the standard library runs atomically between them",
			"while the package contains no synchronisation primitive, any write to package-level state from a decode/encode/query path is a data race (S3); when the instrumenter finds sync/go/select, S3 is switched off and the evidence says so",
			"the Go race detector is not the oracle: under a cooperative scheduler every hand-over is a happens-before edge",
			"Map.Gob results are compared by error only (encoding/gob walks maps in hash order)",
		},
		Components: map[string][]string{
			"real": {"all mxj code (instrumented copy)", "goroutines of the Go runtime", "encoding/xml, encoding/json, encoding/gob"},
			"stub": {"the choice of which goroutine runs (cooperative scheduler at generated yield points)", "order of range over maps (per-task policy)", "io.Reader/io.Writer endpoints"},
		},
	})
}
