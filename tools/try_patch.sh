#!/bin/bash
# usage: try_patch.sh <patch.diff> [ID ...]   - apply a change to a scratch worktree of /repo
# (never to /repo itself), run the repository suite and the given checks (default: all six,
# quick tier; TIER=thorough for the other) against it via VERIF_REPO, remove the worktree.
# Prints one line per check:  <ID> exit=<rc> <clause>
P="$(readlink -f "$1")"; shift
IDS="${@:-C13 C15 C16 C17 C18 C19}"
W=$(mktemp -d /tmp/trypatch.XXXXXX); rmdir $W
git -C /repo worktree add -q --detach $W HEAD || exit 2
trap 'git -C /repo worktree remove --force '$W' 2>/dev/null; git -C /repo worktree prune' EXIT
(cd $W && git apply "$P") || { echo "patch does not apply"; exit 2; }
/verif/tools/repotest.sh $W | tail -3
mkdir -p /tmp/try-evidence
for id in $IDS; do
  out=$(cd /verif && VERIF_REPO=$W VERIF_EVIDENCE_DIR=/tmp/try-evidence ./check $id ${TIER:-quick} 2>&1); rc=$?
  echo "$id exit=$rc $(echo "$out" | grep -m1 '^violation:' | cut -c1-260)"
  [ $rc = 2 ] && echo "$out" | tail -5
  if [ $rc = 1 ] && [ -n "${REPLAY:-}" ]; then
    rp=$(echo "$out" | grep -o 'replay=.*' | cut -d= -f2)
    (cd /verif && VERIF_REPO=$W ./check $id --replay "$rp" 2>&1 | grep -E "^replay:" | grep -o "=> .*")
  fi
done
exit 0
