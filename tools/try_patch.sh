#!/bin/bash
# usage: try_patch.sh <patch.diff> [ID ...]   - apply a seeded change to /repo, run the
# repository suite and the given checks (default: all six, quick tier), undo it afterwards.
# Prints one line per check:  <ID> exit=<rc> <clause>
P="$1"; shift
IDS="${@:-C13 C15 C16 C17 C18 C19}"
cd /repo || exit 2
if [ -n "$(git status --porcelain --untracked-files=no)" ]; then echo "/repo not clean"; exit 2; fi
git apply "$P" || { echo "patch does not apply"; exit 2; }
trap 'git -C /repo checkout -- . ; git -C /repo clean -fdq' EXIT
/verif/tools/repotest.sh /repo | tail -3
for id in $IDS; do
  out=$(cd /verif && VERIF_EVIDENCE_DIR=/tmp/try-evidence ./check $id ${TIER:-quick} 2>&1); rc=$?
  echo "$id exit=$rc $(echo "$out" | grep -m1 '^violation:' | cut -c1-260)"
  [ $rc = 2 ] && echo "$out" | tail -5
done
