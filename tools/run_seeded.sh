#!/bin/bash
# usage: run_seeded.sh [pattern]  - every seeded change under /verif/seeded (and, with MUTANTS=1, every
# patch in /verif/mutants) is applied to a scratch worktree and the check of its property must exit 1
# with a replay that reproduces; patches named neg-* must exit 0.
pat="${1:-}"
list=$(ls -d /verif/seeded/*${pat}*/ 2>/dev/null | grep -v notjudged)
[ -n "${MUTANTS:-}" ] && list="$list $(ls /verif/mutants/*${pat}*.diff 2>/dev/null)"
for s in $list; do
  if [ -d "$s" ]; then name=$(basename $s); patch=$s/patch.diff; id=$(jq -r .property $s/meta.json | grep -o '^C[0-9][0-9]'); [ -z "$id" ] && id="C13 C15 C16 C17 C18 C19"
  else name=$(basename $s .diff); patch=$s; id=$(echo $name | grep -o 'C[0-9][0-9]' | head -1); fi
  res=$(REPLAY=1 /verif/tools/try_patch.sh $patch $id 2>&1 | grep -v "repo tests" | tr "\n" " " | cut -c1-400)
  want=1; case $name in neg-*) want=0;; esac
  ok=MISS; echo "$res" | grep -q "exit=$want" && ok=ok
  [ $want = 0 ] && { echo "$res" | grep -q "exit=[12]" && ok=FALSE-ALARM; }
  [ $want = 1 ] && [ $ok = ok ] && { echo "$res" | grep -q "REPRODUCED EXACTLY" || ok="ok(replay-differs)"; }
  echo "$ok  $name: $res"
done
