#!/bin/bash
# usage: verify_seeded.sh <dir with patch.diff + demo_test.go> <ID>
# Confirms in a scratch worktree: patch applies, builds, repository suite passes, demo fails with
# the patch and passes without; then runs the property's quick check against /repo with the patch.
D="$1"; ID="$2"
export GOFLAGS=-mod=mod GOPROXY=off GOSUMDB=off GOTOOLCHAIN=local
W=/tmp/wt-verify-$$
git -C /repo worktree add -q --detach $W HEAD || exit 2
trap 'git -C /repo worktree remove --force '$W EXIT
cd $W
cp "$D"/demo_test.go ./zz_seeded_demo_test.go
demo_clean=$(go test -vet=off -count=1 -run 'Seeded|Demo|seeded' . 2>&1 | tail -1 | cut -c1-60)
go test -vet=off -count=1 . >/dev/null 2>&1; clean_all=$?
rm -f zz_seeded_demo_test.go; git checkout -q -- . ; git clean -fdq
git apply "$D"/patch.diff || { echo "PATCH DOES NOT APPLY"; exit 1; }
go build . 2>&1 | head -3
suite=$(/verif/tools/repotest.sh $W | tail -1)
cp "$D"/demo_test.go ./zz_seeded_demo_test.go
demo_patched=$(go test -vet=off -count=1 . 2>&1 | grep -E "^(--- FAIL|FAIL|ok|panic)" | head -3 | tr '\n' ' ' | cut -c1-160)
echo "suite with patch: $suite"
echo "demo on clean tree (whole pkg rc=$clean_all): $demo_clean"
echo "demo with patch: $demo_patched"
cd /verif
/verif/tools/try_patch.sh "$D"/patch.diff $ID | grep -v "repo tests"
