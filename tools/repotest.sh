#!/bin/bash
# Runs the repository's own test-suite on a scratch copy of a tree (default /repo's
# working tree) and reports pass/fail counts.  usage: repotest.sh [tree]
export GOFLAGS=-mod=mod GOPROXY=off GOSUMDB=off GOTOOLCHAIN=local
TREE="${1:-/repo}"
S="$(mktemp -d /tmp/repotest.XXXXXX)"; trap 'rm -rf "$S"' EXIT
rsync -a --exclude .git "$TREE"/ "$S/t/"
cd "$S/t"
rc=0
go test -vet=off -count=1 -json ./... > "$S/out.json" 2>/dev/null
python3 - "$S/out.json" <<'PY'
import json,sys
p=f=0; fails=[]
for l in open(sys.argv[1]):
    try: e=json.loads(l)
    except: 
        continue
    if e.get('Test') and e.get('Action') in('pass','fail'):
        if e['Action']=='pass': p+=1
        else: f+=1; fails.append(e['Package']+'::'+e['Test'])
print("repo tests: pass=%d fail=%d (baseline 177 pass)"%(p,f))
for x in fails: print(" FAIL",x)
sys.exit(0 if (f==0 and p>=177) else 1)
PY

