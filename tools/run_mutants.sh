#!/bin/bash
# usage: run_mutants.sh [pattern]   - sensitivity self-test: every patch in /verif/mutants whose
# name matches <pattern> is applied to /repo (undone afterwards); the check of the property named
# in the file name must exit 1 and its replay must reproduce.  Prints a table.
cd /repo || exit 2
[ -z "$(git status --porcelain --untracked-files=no)" ] || { echo "/repo not clean"; exit 2; }
pat="${1:-}"
for m in /verif/mutants/*${pat}*.diff; do
  name=$(basename $m .diff)
  id=$(echo $name | grep -o 'C[0-9][0-9]' | head -1)
  git apply "$m" 2>/dev/null || { echo "$name: DOES NOT APPLY"; continue; }
  suite=$(/verif/tools/repotest.sh /repo | tail -1 | grep -c "fail=0")
  out=$(cd /verif && VERIF_EVIDENCE_DIR=/tmp/try-evidence ./check $id quick 2>&1); rc=$?
  clause=$(echo "$out" | grep -m1 '^violation:' | cut -d: -f2 | cut -c1-70)
  rp=$(echo "$out" | grep -o 'replay=.*' | cut -d= -f2)
  rep="-"
  if [ $rc = 1 ] && [ -n "$rp" ]; then
     r2=$(cd /verif && ./check $id --replay "$rp" 2>&1 | grep -c "REPRODUCED EXACTLY")
     [ "$r2" = 1 ] && rep="replay-ok" || rep="REPLAY-DIFFERS"
  fi
  echo "$name: suite_pass=$suite check_exit=$rc $rep $clause"
  git checkout -- . ; git clean -fdq
done
