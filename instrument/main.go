// instrument rewrites a scratch copy of the mxj root package so that every
// source of nondeterminism the claimed properties depend on goes through
// package verifsim (see /verif/DESIGN.md §2.1).  All rewrites are text edits at
// AST positions on the original source, on the original lines, so line numbers
// in site tables and panics still refer to /repo's files.
//
//	instrument -dir <scratch>/mxj -simrt /verif/simrt -summary <file.json>
package main

import (
	"encoding/json"
	"flag"
	"fmt"
	"go/ast"
	"go/build"
	"go/importer"
	"go/parser"
	"go/token"
	"go/types"
	"os"
	"path/filepath"
	"regexp"
	"sort"
	"strconv"
	"strings"
)

const simImport = "github.com/clbanning/mxj/v2/verifsim"

type edit struct {
	off   int // byte offset in file
	del   int // bytes to delete at off
	text  string
	seq   int // tie-break: keeps insertion order stable at equal offsets
	late  bool
	early bool
}

type site struct {
	ID   int    `json:"id"`
	Kind string `json:"kind"` // func, loop, write, maprange, mapkeys
	Pos  string `json:"pos"`  // file:line
	Func string `json:"func"`
}

type summary struct {
	Files          []string `json:"files"`
	Sites          []site   `json:"sites"`
	YieldSites     int      `json:"yield_sites"`
	MapRange       int      `json:"map_range_sites"`
	MapKeys        int      `json:"map_keys_sites"`
	ClockSites     int      `json:"clock_sites"`
	DiskSites      int      `json:"disk_sites"`
	Globals        []string `json:"globals"`
	GoStmts        int      `json:"go_statements"`
	SyncUses       []string `json:"sync_uses"`
	ChanUses       int      `json:"chan_uses"`
	SelectStmts    int      `json:"select_statements"`
	LockSites      int      `json:"lock_sites_rewritten"`
	OnceSites      int      `json:"once_sites_rewritten"`
	PoolSites      int      `json:"pool_sites_rewritten"`
	AccSites       int      `json:"access_announcements"`
	RaceUnmodelled []string `json:"sync_uses_not_modelled_by_race_detector"`
	WGSites        int      `json:"waitgroup_sites_rewritten"`
	ChanSites      int      `json:"channel_sites_rewritten"`
	Unmodelled     []string `json:"unmodelled_blocking"`
	DiskMode       string   `json:"disk_mode"`
	LoopVarWarns   []string `json:"loopvar_capture_warnings"`
}

type fileCtx struct {
	name   string
	src    []byte
	file   *ast.File
	edits  []edit
	needsI bool
}

var osFileMode = "sim"

// diskFn names the verifsim replacement of an os function in the selected disk mode.
func diskFn(name string) string {
	if osFileMode == "real" {
		switch name {
		case "TempFile":
			return "verifsim.CreateTempReal"
		case "Open", "Create", "OpenFile", "ReadFile", "WriteFile", "Remove", "Rename", "CreateTemp":
			return "verifsim." + name + "Real"
		}
	}
	if name == "TempFile" {
		return "verifsim.CreateTemp"
	}
	return "verifsim." + name
}

var (
	fset  = token.NewFileSet()
	info  *types.Info
	sum   summary
	nsite int
	nedit int
)

func main() {
	dir := flag.String("dir", "", "package directory to rewrite in place")
	simrt := flag.String("simrt", "", "directory holding verifsim.go")
	sumFile := flag.String("summary", "", "where to write the summary JSON")
	flag.StringVar(&accMode, "acc", "on", "on: announce package-level variable accesses and synchronisation edges to the race detector (R8); off: do not")
	flag.StringVar(&osFileMode, "osfile", "sim", "sim: os.Open etc. return *verifsim.File; real: they keep returning *os.File (real files under the simulator's directory)")
	flag.Parse()
	if *dir == "" || *simrt == "" {
		fatal("usage: instrument -dir D -simrt S [-summary F]")
	}

	bp, err := build.ImportDir(*dir, 0)
	if err != nil {
		fatal("go/build: %v", err)
	}
	var files []*fileCtx
	var asts []*ast.File
	for _, n := range bp.GoFiles {
		p := filepath.Join(*dir, n)
		src, err := os.ReadFile(p)
		if err != nil {
			fatal("%v", err)
		}
		f, err := parser.ParseFile(fset, p, src, parser.ParseComments)
		if err != nil {
			fatal("parse: %v", err)
		}
		files = append(files, &fileCtx{name: p, src: src, file: f})
		asts = append(asts, f)
		sum.Files = append(sum.Files, n)
	}

	info = &types.Info{
		Types:      map[ast.Expr]types.TypeAndValue{},
		Uses:       map[*ast.Ident]types.Object{},
		Defs:       map[*ast.Ident]types.Object{},
		Selections: map[*ast.SelectorExpr]*types.Selection{},
	}
	conf := types.Config{Importer: importer.ForCompiler(fset, "source", nil)}
	pkg, err := conf.Check(bp.ImportPath, fset, asts, info)
	if err != nil {
		fatal("type-check: %v", err)
	}

	for _, fc := range files {
		rewriteFile(fc, pkg)
	}
	for _, fc := range files {
		if err := os.WriteFile(fc.name, apply(fc), 0o644); err != nil {
			fatal("%v", err)
		}
	}

	// R5: package-state snapshot + site table.
	writeGlobals(*dir, pkg)

	// copy the runtime
	if err := os.MkdirAll(filepath.Join(*dir, "verifsim"), 0o755); err != nil {
		fatal("%v", err)
	}
	ents, _ := os.ReadDir(*simrt)
	for _, e := range ents {
		if strings.HasSuffix(e.Name(), ".go") {
			b, err := os.ReadFile(filepath.Join(*simrt, e.Name()))
			if err != nil {
				fatal("%v", err)
			}
			if err := os.WriteFile(filepath.Join(*dir, "verifsim", e.Name()), b, 0o644); err != nil {
				fatal("%v", err)
			}
		}
	}

	// go directive: range-over-func needs go1.23 language semantics
	gm := filepath.Join(*dir, "go.mod")
	if b, err := os.ReadFile(gm); err == nil {
		re := regexp.MustCompile(`(?m)^go[ \t]+\d+(\.\d+)*[ \t]*$`)
		nb := re.ReplaceAll(b, []byte("go 1.23"))
		if !re.Match(b) {
			nb = append(b, []byte("\ngo 1.23\n")...)
		}
		nb = regexp.MustCompile(`(?m)^toolchain\s+.*$`).ReplaceAll(nb, nil)
		os.WriteFile(gm, nb, 0o644)
	}

	sum.DiskMode = osFileMode
	sum.YieldSites = 0
	for _, s := range sum.Sites {
		switch s.Kind {
		case "func", "loop", "write":
			sum.YieldSites++
		}
	}
	if *sumFile != "" {
		b, _ := json.MarshalIndent(sum, "", " ")
		os.WriteFile(*sumFile, b, 0o644)
	}
}

var accMode = "on"

// ---------------------------------------------------------------- R8: accesses to package-level variables

var raceKeys = map[string]int{} // "var" or "var.field" -> id
var raceNames []string

func raceID(key string) int {
	if id, ok := raceKeys[key]; ok {
		return id
	}
	id := len(raceNames)
	raceKeys[key] = id
	raceNames = append(raceNames, key)
	return id
}

func isSyncNamed(t types.Type) bool {
	for {
		p, ok := t.(*types.Pointer)
		if !ok {
			break
		}
		t = p.Elem()
	}
	n, ok := t.(*types.Named)
	if !ok || n.Obj().Pkg() == nil {
		return false
	}
	pp := n.Obj().Pkg().Path()
	return pp == "sync" || pp == "sync/atomic"
}

type pkgAccess struct {
	key   string
	write bool
}

// pkgVarOf returns the package-level variable an identifier denotes, or nil.
func pkgVarOf(id *ast.Ident, pkg *types.Package) *types.Var {
	v, ok := info.Uses[id].(*types.Var)
	if !ok || v.Pkg() != pkg || v.Parent() != pkg.Scope() || v.Name() == "_" {
		return nil
	}
	return v
}

// accessPath analyses an expression that designates storage (an assignment target, the operand
// of &, the receiver of a call ...).  It returns the tracked key the expression stays within -
// the variable itself, or variable.field for a field of a struct-typed variable - and whether
// assigning to the expression writes that key (true) or only reads it on the way to other
// storage (an element of a slice, the pointee of a pointer: not tracked).
func accessPath(e ast.Expr, pkg *types.Package) (key string, within bool, ok bool) {
	switch x := ast.Unparen(e).(type) {
	case *ast.Ident:
		if v := pkgVarOf(x, pkg); v != nil {
			if isSyncNamed(v.Type()) {
				return "", false, false
			}
			return v.Name(), true, true
		}
	case *ast.SelectorExpr:
		if k, w, ok := accessPath(x.X, pkg); ok {
			if !w {
				return k, false, true
			}
			if tv, ok2 := info.Types[x.X]; ok2 {
				if _, isStruct := tv.Type.Underlying().(*types.Struct); isStruct {
					if ft, ok3 := info.Types[x]; ok3 && isSyncNamed(ft.Type) {
						return "", false, false
					}
					if strings.Count(k, ".") == 0 {
						return k + "." + x.Sel.Name, true, true // field of a struct-typed variable
					}
					return k, true, true
				}
			}
			return k, false, true // through a pointer: the variable is only read
		}
	case *ast.IndexExpr:
		if k, w, ok := accessPath(x.X, pkg); ok {
			if !w {
				return k, false, true
			}
			if tv, ok2 := info.Types[x.X]; ok2 {
				switch tv.Type.Underlying().(type) {
				case *types.Map, *types.Array:
					return k, true, true // a map entry / array element is part of the variable
				}
			}
			return k, false, true // slice element, pointer to array: other storage
		}
	case *ast.StarExpr:
		if k, _, ok := accessPath(x.X, pkg); ok {
			return k, false, true
		}
	}
	return "", false, false
}

// collectAccesses lists the package-level variables the given nodes read and write, not
// descending into function literals (their statements announce their own accesses).
func collectAccesses(pkg *types.Package, nodes ...ast.Node) []pkgAccess {
	seen := map[string]int{}
	var out []pkgAccess
	add := func(key string, write bool) {
		if key == "" {
			return
		}
		if i, ok := seen[key]; ok {
			if write {
				out[i].write = true
			}
			return
		}
		seen[key] = len(out)
		out = append(out, pkgAccess{key, write})
	}
	handled := map[*ast.Ident]bool{}
	// The announcement is made before the statement, the accesses happen inside it.  That is the
	// same thing unless the statement itself synchronises before the access: a read that follows
	// a call which may synchronise (`if ready() && table[k]`: the read happens only after, and
	// only if, ready() saw the flag) or any explicit synchronisation operation, and a store
	// whose right-hand side synchronises (`shared = <-ch`), are NOT announced - fewer reports,
	// never a report for an access the statement has ordered.
	barrier, explicitSync := syncBarrier(pkg, nodes)
	// target: e is assigned to (or otherwise modified in place)
	target := func(e ast.Expr) {
		if k, within, ok := accessPath(e, pkg); ok {
			if id := rootIdent(e); id != nil {
				handled[id] = true
			}
			if explicitSync {
				return
			}
			add(k, within) // assigning to storage outside the variable (slice element, pointee) only reads it
		}
	}
	for _, node := range nodes {
		if node == nil || isNilNode(node) {
			continue
		}
		// first pass: assignment targets and other writes
		ast.Inspect(node, func(n ast.Node) bool {
			switch y := n.(type) {
			case *ast.FuncLit:
				return false
			case *ast.AssignStmt:
				if y.Tok != token.DEFINE {
					for _, l := range y.Lhs {
						target(l)
					}
				}
			case *ast.IncDecStmt:
				target(y.X)
			case *ast.RangeStmt:
				if y.Tok == token.ASSIGN {
					if y.Key != nil {
						target(y.Key)
					}
					if y.Value != nil {
						target(y.Value)
					}
				}
			case *ast.CallExpr:
				if id, ok := y.Fun.(*ast.Ident); ok {
					if _, isB := info.Uses[id].(*types.Builtin); isB && (id.Name == "delete" || id.Name == "clear") && len(y.Args) > 0 {
						if k, w, ok := accessPath(y.Args[0], pkg); ok && w {
							add(k, true)
						}
					}
				}
				// the address argument of a sync/atomic function is an atomic access, not a plain one
				if _, _, _, ok := isAnyPkgCall(y.Fun, map[string][]string{"sync/atomic": atomicFuncs}); ok && len(y.Args) > 0 {
					if u, ok := ast.Unparen(y.Args[0]).(*ast.UnaryExpr); ok && u.Op == token.AND {
						ast.Inspect(u.X, func(m ast.Node) bool {
							if id, ok := m.(*ast.Ident); ok {
								handled[id] = true
							}
							return true
						})
					}
				}
			}
			return true
		})
		// second pass: everything else is a read; the outermost designator decides the key
		ast.Inspect(node, func(n ast.Node) bool {
			switch y := n.(type) {
			case *ast.FuncLit:
				return false
			case *ast.SelectorExpr, *ast.IndexExpr, *ast.StarExpr:
				if id := rootIdent(y.(ast.Expr)); id != nil && !handled[id] {
					if k, _, ok := accessPath(y.(ast.Expr), pkg); ok {
						if !barrier.IsValid() || id.Pos() < barrier {
							add(k, false)
						}
						handled[id] = true
					}
				}
			case *ast.Ident:
				if handled[y] {
					return true
				}
				if v := pkgVarOf(y, pkg); v != nil && !isSyncNamed(v.Type()) {
					if !barrier.IsValid() || y.Pos() < barrier {
						add(v.Name(), false)
					}
				}
			}
			return true
		})
	}
	return out
}

// syncBarrier returns the position after which a read inside the given nodes may have been
// ordered by the statement itself (the end of the first call that may synchronise, or of the first
// explicit synchronisation operation), and whether there is an explicit synchronisation operation.
func syncBarrier(pkg *types.Package, nodes []ast.Node) (barrier token.Pos, explicit bool) {
	note := func(p token.Pos) {
		if !barrier.IsValid() || p < barrier {
			barrier = p
		}
	}
	for _, node := range nodes {
		if node == nil || isNilNode(node) {
			continue
		}
		ast.Inspect(node, func(n ast.Node) bool {
			switch y := n.(type) {
			case *ast.FuncLit:
				return false
			case *ast.SendStmt:
				explicit = true
				note(y.Pos())
			case *ast.UnaryExpr:
				if y.Op == token.ARROW {
					explicit = true
					note(y.Pos())
				}
			case *ast.GoStmt, *ast.DeferStmt:
				// the call is not executed now; its operands are
				return true
			case *ast.CallExpr:
				if tv, ok := info.Types[y.Fun]; ok && tv.IsType() {
					return true // conversion
				}
				if id, ok := ast.Unparen(y.Fun).(*ast.Ident); ok {
					if _, isB := info.Uses[id].(*types.Builtin); isB {
						return true
					}
				}
				if sel, ok := y.Fun.(*ast.SelectorExpr); ok {
					if syncMethod(sel) != "" {
						explicit = true
						note(y.Pos())
						return true
					}
					if _, _, _, ok := isAnyPkgCall(y.Fun, map[string][]string{"sync/atomic": atomicFuncs}); ok {
						explicit = true
						note(y.Pos())
						return true
					}
					// a function or method of another package (not through an interface) cannot reach
					// this package's locks, channels and atomics
					if se := info.Selections[sel]; se != nil {
						if f, ok := se.Obj().(*types.Func); ok && f.Pkg() != nil && f.Pkg() != pkg {
							if _, isIface := se.Recv().Underlying().(*types.Interface); !isIface {
								return true
							}
						}
					} else if id, ok := sel.X.(*ast.Ident); ok {
						if _, isPkg := info.Uses[id].(*types.PkgName); isPkg {
							return true
						}
					}
				}
				note(y.Rparen + 1)
			}
			return true
		})
	}
	return barrier, explicit
}

func isNilNode(n ast.Node) bool {
	switch x := n.(type) {
	case ast.Expr:
		return x == nil
	case ast.Stmt:
		return x == nil
	}
	return false
}

func rootIdent(e ast.Expr) *ast.Ident {
	for {
		switch y := ast.Unparen(e).(type) {
		case *ast.SelectorExpr:
			e = y.X
		case *ast.IndexExpr:
			e = y.X
		case *ast.StarExpr:
			e = y.X
		case *ast.Ident:
			return y
		default:
			return nil
		}
	}
}

var atomicFuncs = []string{
	"AddInt32", "AddInt64", "AddUint32", "AddUint64", "AddUintptr",
	"AndInt32", "AndInt64", "AndUint32", "AndUint64", "AndUintptr",
	"OrInt32", "OrInt64", "OrUint32", "OrUint64", "OrUintptr",
	"LoadInt32", "LoadInt64", "LoadUint32", "LoadUint64", "LoadUintptr", "LoadPointer",
	"StoreInt32", "StoreInt64", "StoreUint32", "StoreUint64", "StoreUintptr", "StorePointer",
	"SwapInt32", "SwapInt64", "SwapUint32", "SwapUint64", "SwapUintptr", "SwapPointer",
	"CompareAndSwapInt32", "CompareAndSwapInt64", "CompareAndSwapUint32", "CompareAndSwapUint64", "CompareAndSwapUintptr", "CompareAndSwapPointer",
}

// headerNodes returns the parts of a statement that are evaluated when the statement itself is
// reached (not the nested blocks, which announce their own statements).
func headerNodes(s ast.Stmt) []ast.Node {
	switch x := s.(type) {
	case *ast.IfStmt:
		n := []ast.Node{x.Init, x.Cond}
		if e, ok := x.Else.(*ast.IfStmt); ok {
			n = append(n, headerNodes(e)...) // an else-if has no place of its own for an announcement
		}
		return n
	case *ast.ForStmt:
		return []ast.Node{x.Init, x.Cond, x.Post}
	case *ast.RangeStmt:
		return []ast.Node{x.X, x.Key, x.Value}
	case *ast.SwitchStmt:
		n := []ast.Node{x.Init, x.Tag}
		for _, c := range x.Body.List {
			for _, e := range c.(*ast.CaseClause).List {
				n = append(n, e)
			}
		}
		return n
	case *ast.TypeSwitchStmt:
		return []ast.Node{x.Init, x.Assign}
	case *ast.SelectStmt, *ast.BlockStmt:
		return nil
	case *ast.LabeledStmt:
		return headerNodes(x.Stmt)
	}
	return []ast.Node{s}
}

func fatal(f string, a ...interface{}) {
	fmt.Fprintf(os.Stderr, "instrument: "+f+"\n", a...)
	os.Exit(2)
}

func (fc *fileCtx) off(p token.Pos) int { return fset.Position(p).Offset }

func (fc *fileCtx) insert(p token.Pos, text string) {
	nedit++
	fc.edits = append(fc.edits, edit{off: fc.off(p), text: text, seq: nedit})
	fc.needsI = true
}

func (fc *fileCtx) replace(from, to token.Pos, text string) {
	nedit++
	fc.edits = append(fc.edits, edit{off: fc.off(from), del: fc.off(to) - fc.off(from), text: text, seq: nedit})
	fc.needsI = true
}

func apply(fc *fileCtx) []byte {
	sort.SliceStable(fc.edits, func(i, j int) bool {
		if fc.edits[i].off != fc.edits[j].off {
			return fc.edits[i].off < fc.edits[j].off
		}
		if fc.edits[i].early != fc.edits[j].early {
			return fc.edits[i].early // announcements placed before a statement precede whatever rewrites its start
		}
		if fc.edits[i].late != fc.edits[j].late {
			return !fc.edits[i].late // statements appended after a statement follow whatever closes it
		}
		return fc.edits[i].seq < fc.edits[j].seq
	})
	var out []byte
	cur := 0
	for _, e := range fc.edits {
		if e.off < cur {
			fatal("overlapping edits in %s at %d", fc.name, e.off)
		}
		out = append(out, fc.src[cur:e.off]...)
		out = append(out, e.text...)
		cur = e.off + e.del
	}
	out = append(out, fc.src[cur:]...)
	return out
}

func newSite(kind string, p token.Pos, fn string) int {
	id := nsite
	nsite++
	pos := fset.Position(p)
	sum.Sites = append(sum.Sites, site{ID: id, Kind: kind, Pos: filepath.Base(pos.Filename) + ":" + strconv.Itoa(pos.Line), Func: fn})
	return id
}

func isAnyPkgCall(e ast.Expr, want map[string][]string) (*ast.SelectorExpr, string, string, bool) {
	for pkg, names := range want {
		for _, n := range names {
			if sel, ok := isPkgCall(e, pkg, n); ok {
				return sel, n, pkg, true
			}
		}
	}
	return nil, "", "", false
}

func isTimeAfter(c *ast.CallExpr) bool {
	_, ok := isPkgCall(c.Fun, "time", "After")
	return ok
}

func isPkgCall(e ast.Expr, pkgPath, name string) (*ast.SelectorExpr, bool) {
	sel, ok := e.(*ast.SelectorExpr)
	if !ok || sel.Sel.Name != name {
		return nil, false
	}
	id, ok := sel.X.(*ast.Ident)
	if !ok {
		return nil, false
	}
	pn, ok := info.Uses[id].(*types.PkgName)
	if !ok || pn.Imported().Path() != pkgPath {
		return nil, false
	}
	return sel, true
}

// syncMethod names the sync method a selector resolves to ("Mutex.Lock", "Once.Do", ...).
func syncMethod(sel *ast.SelectorExpr) string {
	se := info.Selections[sel]
	if se == nil || se.Kind() != types.MethodVal {
		return ""
	}
	f, ok := se.Obj().(*types.Func)
	if !ok || f.Pkg() == nil || (f.Pkg().Path() != "sync" && f.Pkg().Path() != "sync/atomic") {
		return ""
	}
	prefix := ""
	if f.Pkg().Path() == "sync/atomic" {
		prefix = "atomic."
	}
	sig, ok := f.Type().(*types.Signature)
	if !ok || sig.Recv() == nil {
		return ""
	}
	rt := sig.Recv().Type()
	if p, ok := rt.(*types.Pointer); ok {
		rt = p.Elem()
	}
	if n, ok := rt.(*types.Named); ok {
		return prefix + n.Obj().Name() + "." + f.Name()
	}
	return ""
}

func atomicMethod(sel *ast.SelectorExpr) bool { return strings.HasPrefix(syncMethod(sel), "atomic.") }

// syncKey spells the identity of the sync object a method is called on (for the race detector).
func syncKey(sel *ast.SelectorExpr, src string) string {
	recv, isPtr := syncRecv(sel, src)
	if isPtr {
		return recv
	}
	return "&(" + recv + ")"
}

func isChan(e ast.Expr) bool {
	tv, ok := info.Types[e]
	if !ok || tv.Type == nil {
		return false
	}
	_, ok = tv.Type.Underlying().(*types.Chan)
	return ok
}

// isChanType reports whether the type expression e denotes a channel type.
func isChanType(e ast.Expr) bool {
	tv, ok := info.Types[e]
	if !ok || tv.Type == nil || !tv.IsType() {
		return false
	}
	_, ok = tv.Type.Underlying().(*types.Chan)
	return ok
}

// syncRecv spells out the receiver of a sync method call: when the method is promoted from an
// embedded field the implicit field path is made explicit (x.Wait() -> x.WaitGroup).  It also
// reports whether that receiver expression is a pointer.
func syncRecv(sel *ast.SelectorExpr, src string) (string, bool) {
	se := info.Selections[sel]
	t := se.Recv()
	idx := se.Index()
	for _, i := range idx[:len(idx)-1] {
		if p, ok := t.Underlying().(*types.Pointer); ok {
			t = p.Elem()
		}
		st, ok := t.Underlying().(*types.Struct)
		if !ok {
			break
		}
		f := st.Field(i)
		src += "." + f.Name()
		t = f.Type()
	}
	_, isPtr := t.Underlying().(*types.Pointer)
	return src, isPtr
}

func isMap(e ast.Expr) bool {
	tv, ok := info.Types[e]
	if !ok || tv.Type == nil {
		return false
	}
	_, ok = tv.Type.Underlying().(*types.Map)
	return ok
}

// sharedWrite reports whether an assignment target can be memory that another
// goroutine may see: an index expression, a field, a dereference, or a
// package-level variable.
func sharedWrite(e ast.Expr) bool {
	switch x := e.(type) {
	case *ast.ParenExpr:
		return sharedWrite(x.X)
	case *ast.IndexExpr, *ast.StarExpr:
		return true
	case *ast.SelectorExpr:
		return true
	case *ast.Ident:
		if obj, ok := info.Uses[x].(*types.Var); ok && obj.Parent() != nil && obj.Parent() == obj.Pkg().Scope() {
			return true
		}
	}
	return false
}

func rewriteFile(fc *fileCtx, pkg *types.Package) {
	_ = pkg
	removed := map[string]int{}       // import path -> uses rewritten away
	leaveAlone := map[ast.Node]bool{} // channel operations that are the communication of a select clause
	recv2 := map[ast.Node]bool{}      // receive expressions of the form v, ok := <-ch
	srcOf := func(e ast.Expr) string { return string(fc.src[fc.off(e.Pos()):fc.off(e.End())]) }
	curFunc := ""

	var stmts func(list []ast.Stmt)
	yieldAfter := func(s ast.Stmt) {
		id := newSite("write", s.Pos(), curFunc)
		fc.insert(s.End(), fmt.Sprintf("; verifsim.Yield(%d)", id))
		fc.edits[len(fc.edits)-1].late = true
	}
	announce := func(at token.Pos, s ast.Stmt, extra ...ast.Node) {
		if accMode != "on" {
			return
		}
		var nodes []ast.Node
		if s != nil {
			nodes = headerNodes(s)
		}
		nodes = append(nodes, extra...)
		acc := collectAccesses(pkg, nodes...)
		if len(acc) == 0 {
			return
		}
		mode, ids := "", ""
		for _, a := range acc {
			if a.write {
				mode += "w"
			} else {
				mode += "r"
			}
			ids += fmt.Sprintf(", %d", raceID(a.key))
		}
		id := newSite("access", at, curFunc)
		fc.insert(at, fmt.Sprintf("verifsim.Acc(%d, %q%s);", id, mode, ids))
		fc.edits[len(fc.edits)-1].early = true
		sum.AccSites++
	}
	stmts = func(list []ast.Stmt) {
		for _, s := range list {
			switch s.(type) {
			case *ast.CaseClause, *ast.CommClause:
				continue // (the body of a switch is a block whose "statements" are its clauses)
			}
			announce(s.Pos(), s)
			if f, ok := s.(*ast.ForStmt); ok && (f.Cond != nil || f.Post != nil) {
				// condition and post statement are evaluated again on every iteration
				announce(f.Body.Lbrace+1, nil, f.Cond, f.Post)
			}
			if ls, ok := s.(*ast.LabeledStmt); ok {
				if f, ok := ls.Stmt.(*ast.ForStmt); ok && (f.Cond != nil || f.Post != nil) {
					announce(f.Body.Lbrace+1, nil, f.Cond, f.Post)
				}
				s = ls.Stmt
			}
			switch x := s.(type) {
			case *ast.AssignStmt:
				if x.Tok != token.DEFINE {
					for _, l := range x.Lhs {
						if sharedWrite(l) {
							yieldAfter(x)
							break
						}
					}
				}
			case *ast.IncDecStmt:
				if sharedWrite(x.X) {
					yieldAfter(x)
				}
			case *ast.SendStmt, *ast.GoStmt:
				yieldAfter(s)
			case *ast.ExprStmt:
				// a call used as a statement is executed for its effect (delete, Store, Put,
				// Write, Unlock, ...): a scheduling point after it
				if c, ok := x.X.(*ast.CallExpr); ok {
					if id, ok := c.Fun.(*ast.Ident); ok {
						if _, isB := info.Uses[id].(*types.Builtin); isB && id.Name != "delete" && id.Name != "copy" {
							break // panic, print, ...
						}
					}
					yieldAfter(x)
				}
			}
		}
	}

	ast.Inspect(fc.file, func(n ast.Node) bool {
		switch x := n.(type) {
		case *ast.FuncDecl:
			curFunc = x.Name.Name
			if x.Recv != nil && len(x.Recv.List) == 1 {
				curFunc = types.ExprString(x.Recv.List[0].Type) + "." + curFunc
			}
			if x.Body != nil {
				id := newSite("func", x.Body.Lbrace, curFunc)
				fc.insert(x.Body.Lbrace+1, fmt.Sprintf("verifsim.Yield(%d);", id))
			}
		case *ast.FuncLit:
			id := newSite("func", x.Body.Lbrace, curFunc+".func")
			fc.insert(x.Body.Lbrace+1, fmt.Sprintf("verifsim.Yield(%d);", id))
		case *ast.BlockStmt:
			stmts(x.List)
		case *ast.CaseClause:
			stmts(x.Body)
		case *ast.CommClause:
			stmts(x.Body)
			sum.ChanUses++
		case *ast.SelectStmt:
			sum.SelectStmts++
			sum.Unmodelled = append(sum.Unmodelled, "select")
			for _, cl := range x.Body.List {
				if cc, ok := cl.(*ast.CommClause); ok && cc.Comm != nil {
					ast.Inspect(cc.Comm, func(m ast.Node) bool {
						switch y := m.(type) {
						case *ast.SendStmt:
							leaveAlone[y] = true
						case *ast.UnaryExpr:
							if y.Op == token.ARROW {
								leaveAlone[y] = true
							}
						case *ast.FuncLit:
							return false
						}
						return true
					})
				}
			}
		case *ast.ForStmt:
			id := newSite("loop", x.Body.Lbrace, curFunc)
			fc.insert(x.Body.Lbrace+1, fmt.Sprintf("verifsim.Yield(%d);", id))
		case *ast.RangeStmt:
			id := newSite("loop", x.Body.Lbrace, curFunc)
			fc.insert(x.Body.Lbrace+1, fmt.Sprintf("verifsim.Yield(%d);", id))
			if isChan(x.X) {
				// for v := range ch  ->  for v := range verifsim.RangeChan(ch)
				sum.ChanUses++
				sum.ChanSites++
				fc.insert(x.X.Pos(), "verifsim.RangeChan(")
				fc.insert(x.X.End(), ")")
			}
			if isMap(x.X) {
				mid := newSite("maprange", x.X.Pos(), curFunc)
				sum.MapRange++
				fc.insert(x.X.Pos(), fmt.Sprintf("verifsim.MapIter(%d, ", mid))
				fc.insert(x.X.End(), ")")
			}
		case *ast.GoStmt:
			sum.GoStmts++
			// go f(a, b)  ->  { __vf := f; __v0 := a; __v1 := b; verifsim.Go(func() { __vf(__v0, __v1) }) }
			// (function value and arguments are evaluated by the parent, as the language requires)
			simple := false
			if id, ok := ast.Unparen(x.Call.Fun).(*ast.Ident); ok {
				if _, isB := info.Uses[id].(*types.Builtin); isB {
					simple = true
				}
			}
			if tv, ok := info.Types[x.Call.Fun]; ok && tv.IsType() {
				simple = true
			}
			for _, a := range x.Call.Args {
				if tv, ok := info.Types[a]; ok {
					if _, isTuple := tv.Type.(*types.Tuple); isTuple {
						simple = true
					}
				}
			}
			if simple {
				fc.replace(x.Go, x.Go+2, "verifsim.Go(func() {")
				fc.insert(x.Call.End(), "})")
				break
			}
			fc.replace(x.Go, x.Call.Fun.Pos(), "{ __vf := ")
			var names []string
			prevEnd := x.Call.Fun.End()
			for i, a := range x.Call.Args {
				tv := info.Types[a]
				if tv.Value != nil || tv.IsNil() {
					// a constant (or nil) keeps its place in the call: it has no evaluation time
					names = append(names, srcOf(a))
					fc.replace(prevEnd, a.End(), "; ")
				} else {
					names = append(names, fmt.Sprintf("__v%d", i))
					fc.replace(prevEnd, a.Pos(), fmt.Sprintf("; __v%d := ", i))
				}
				prevEnd = a.End()
			}
			call := strings.Join(names, ", ")
			if x.Call.Ellipsis.IsValid() {
				call += "..."
			}
			fc.replace(prevEnd, x.Call.End(), "; verifsim.Go(func() { __vf("+call+") }) }")
		case *ast.AssignStmt:
			if len(x.Lhs) == 2 && len(x.Rhs) == 1 {
				if u, ok := ast.Unparen(x.Rhs[0]).(*ast.UnaryExpr); ok && u.Op == token.ARROW {
					recv2[u] = true
				}
			}
		case *ast.ValueSpec:
			if len(x.Names) == 2 && len(x.Values) == 1 {
				if u, ok := ast.Unparen(x.Values[0]).(*ast.UnaryExpr); ok && u.Op == token.ARROW {
					recv2[u] = true
				}
			}
		case *ast.SendStmt:
			sum.ChanUses++
			if !leaveAlone[x] {
				// ch <- v  ->  verifsim.Send(ch, v)
				fc.insert(x.Chan.Pos(), "verifsim.Send(")
				fc.replace(x.Arrow, x.Arrow+2, ",")
				fc.insert(x.Value.End(), ")")
				sum.ChanSites++
			}
		case *ast.UnaryExpr:
			if x.Op == token.ARROW {
				sum.ChanUses++
				if c, ok := x.X.(*ast.CallExpr); ok && isTimeAfter(c) {
					break // <-time.After(d): the simulated clock hands out a channel that is ready
				}
				if !leaveAlone[x] {
					// <-ch  ->  verifsim.Recv(ch)   /   v, ok := <-ch  ->  v, ok := verifsim.Recv2(ch)
					fn := "verifsim.Recv("
					if recv2[x] {
						fn = "verifsim.Recv2("
					}
					fc.replace(x.OpPos, x.OpPos+2, fn)
					fc.insert(x.X.End(), ")")
					sum.ChanSites++
				}
			}
		case *ast.CallExpr:
			if id, ok := x.Fun.(*ast.Ident); ok {
				if _, isB := info.Uses[id].(*types.Builtin); isB {
					switch {
					case id.Name == "make" && len(x.Args) >= 1 && isChanType(x.Args[0]):
						// make(chan T, n)  ->  verifsim.RegChan(make(chan T, n))
						fc.insert(x.Pos(), "verifsim.RegChan(")
						fc.insert(x.End(), ")")
						sum.ChanSites++
					case id.Name == "close" && len(x.Args) == 1:
						fc.replace(id.Pos(), id.End(), "verifsim.Close")
						sum.ChanSites++
					}
				}
			}
			if _, _, _, ok := isAnyPkgCall(x.Fun, map[string][]string{"sync/atomic": atomicFuncs}); ok && len(x.Args) > 0 && accMode == "on" {
				// atomic.AddInt64(&x, 1)  ->  atomic.AddInt64(verifsim.AtomicPtr(&x), 1)
				fc.insert(x.Args[0].Pos(), "verifsim.AtomicPtr(")
				fc.insert(x.Args[0].End(), ")")
			}
			if sel, _, _, ok := isAnyPkgCall(x.Fun, map[string][]string{"sync": {"OnceFunc", "OnceValue", "OnceValues", "NewCond"}}); ok {
				sum.RaceUnmodelled = append(sum.RaceUnmodelled, "sync."+sel.Sel.Name)
			}
			if sel, _, _, ok := isAnyPkgCall(x.Fun, map[string][]string{"time": {"AfterFunc", "NewTimer", "NewTicker", "Tick"}}); ok {
				sum.Unmodelled = append(sum.Unmodelled, "time."+sel.Sel.Name)
			}
			if sel, name, _, ok := isAnyPkgCall(x.Fun, map[string][]string{"runtime": {"NumCPU", "GOMAXPROCS", "Gosched"}}); ok {
				fc.replace(sel.Pos(), sel.End(), "verifsim."+name)
				removed["runtime"]++
				sum.ClockSites++
			} else if sel, ok := isPkgCall(x.Fun, "time", "Sleep"); ok {
				fc.replace(sel.Pos(), sel.End(), "verifsim.Sleep")
				removed["time"]++
				sum.ClockSites++
			} else if sel, ok := isPkgCall(x.Fun, "time", "After"); ok {
				fc.replace(sel.Pos(), sel.End(), "verifsim.After")
				removed["time"]++
				sum.ClockSites++
			} else if sel, ok := isPkgCall(x.Fun, "os", "Open"); ok {
				fc.replace(sel.Pos(), sel.End(), diskFn("Open"))
				removed["os"]++
				sum.DiskSites++
			} else if sel, ok := isPkgCall(x.Fun, "os", "Create"); ok {
				fc.replace(sel.Pos(), sel.End(), diskFn("Create"))
				removed["os"]++
				sum.DiskSites++
			} else if sel, ok := isPkgCall(x.Fun, "os", "Stat"); ok {
				fc.replace(sel.Pos(), sel.End(), "verifsim.Stat")
				removed["os"]++
				sum.DiskSites++
			} else if sel, name, pkg, ok := isAnyPkgCall(x.Fun, map[string][]string{
				"time":        {"Now", "Since"},
				"os":          {"Getpid"},
				"math/rand":   {"Int", "Intn", "Int31", "Int31n", "Int63", "Int63n", "Uint32", "Uint64", "Float64", "Float32", "Perm", "Shuffle", "Seed"},
				"crypto/rand": {"Read"},
			}); ok {
				// other process-level sources of nondeterminism: wall clock, pid, global PRNGs
				fn := name
				switch pkg {
				case "math/rand":
					fn = "Rand" + name
				case "crypto/rand":
					fn = "CryptoRandRead"
				}
				fc.replace(sel.Pos(), sel.End(), "verifsim."+fn)
				removed[pkg]++
				sum.ClockSites++
			} else if sel, name, pkg, ok := isAnyPkgCall(x.Fun, map[string][]string{
				"os":        {"OpenFile", "Lstat", "ReadFile", "WriteFile", "Remove", "Rename", "CreateTemp"},
				"io/ioutil": {"ReadFile", "WriteFile", "TempFile"},
			}); ok {
				fc.replace(sel.Pos(), sel.End(), diskFn(name))
				removed[pkg]++
				sum.DiskSites++
			} else if sel, ok := x.Fun.(*ast.SelectorExpr); ok && syncMethod(sel) != "" {
				switch m := syncMethod(sel); m {
				case "Mutex.Lock", "RWMutex.Lock":
					// X.Lock()  ->  verifsim.SimLock(X.Lock, X.TryLock, &X)
					recv := string(fc.src[fc.off(sel.X.Pos()):fc.off(sel.X.End())])
					fc.replace(x.Pos(), x.End(), "verifsim.SimLock("+recv+".Lock, "+recv+".TryLock, "+syncKey(sel, recv)+")")
					sum.LockSites++
				case "RWMutex.RLock":
					recv := string(fc.src[fc.off(sel.X.Pos()):fc.off(sel.X.End())])
					fc.replace(x.Pos(), x.End(), "verifsim.SimLock("+recv+".RLock, "+recv+".TryRLock, "+syncKey(sel, recv)+")")
					sum.LockSites++
				case "Mutex.Unlock", "RWMutex.Unlock", "RWMutex.RUnlock":
					// X.Unlock()  ->  verifsim.SimUnlock(X.Unlock, &X): the release edge for the race detector
					if accMode == "on" {
						recv := string(fc.src[fc.off(sel.X.Pos()):fc.off(sel.X.End())])
						fc.replace(x.Pos(), x.End(), "verifsim.SimUnlock("+recv+"."+sel.Sel.Name+", "+syncKey(sel, recv)+")")
					}
				case "Once.Do":
					if len(x.Args) == 1 {
						// X.Do(f)  ->  verifsim.SimOnce(&(X), f); f stays in place (it may carry edits of its own)
						recv := string(fc.src[fc.off(sel.X.Pos()):fc.off(sel.X.End())])
						amp := "&"
						if tv, ok := info.Types[sel.X]; ok {
							if _, isPtr := tv.Type.Underlying().(*types.Pointer); isPtr {
								amp = ""
							}
						}
						fc.replace(x.Pos(), x.Lparen+1, "verifsim.SimOnce("+amp+"("+recv+"), ")
						sum.OnceSites++
					}
				case "Pool.Get", "Pool.Put":
					// X.Get() -> verifsim.PoolGet(&(X)) ; X.Put(v) -> verifsim.PoolPut(&(X), v)
					recv := string(fc.src[fc.off(sel.X.Pos()):fc.off(sel.X.End())])
					amp := "&"
					if tv, ok := info.Types[sel.X]; ok {
						if _, isPtr := tv.Type.Underlying().(*types.Pointer); isPtr {
							amp = ""
						}
					}
					fn := "verifsim.PoolGet("
					tail := ""
					if m == "Pool.Put" {
						fn = "verifsim.PoolPut("
						tail = ", "
					}
					fc.replace(x.Pos(), x.Lparen+1, fn+amp+"("+recv+")"+tail)
					sum.PoolSites++
				case "WaitGroup.Add", "WaitGroup.Done", "WaitGroup.Wait":
					// X.Add(n) -> verifsim.WGAdd(&(X), n) ; X.Done() -> verifsim.WGDone(&(X)) ; X.Wait() -> verifsim.WGWait(&(X))
					recv, isPtr := syncRecv(sel, srcOf(sel.X))
					amp := "&"
					if isPtr {
						amp = ""
					}
					tail := ""
					if m == "WaitGroup.Add" {
						tail = ", "
					}
					fc.replace(x.Pos(), x.Lparen+1, "verifsim.WG"+sel.Sel.Name+"("+amp+"("+recv+")"+tail)
					sum.WGSites++
				case "Cond.Wait":
					sum.Unmodelled = append(sum.Unmodelled, m)
					sum.RaceUnmodelled = append(sum.RaceUnmodelled, m)
				default:
					if strings.HasPrefix(m, "Map.") || atomicMethod(sel) {
						// sync.Map and the sync/atomic types: every operation acquires and releases
						if accMode == "on" && sel.Sel.Name != "Range" {
							recv, isPtr := syncRecv(sel, string(fc.src[fc.off(sel.X.Pos()):fc.off(sel.X.End())]))
							amp := "&"
							if isPtr {
								amp = ""
							}
							fc.replace(sel.X.Pos(), sel.X.End(), "verifsim.AtomicObj("+amp+"("+recv+"))")
						} else if sel.Sel.Name == "Range" {
							sum.RaceUnmodelled = append(sum.RaceUnmodelled, m)
						}
					} else {
						sum.RaceUnmodelled = append(sum.RaceUnmodelled, m)
					}
				}
			} else if sel, ok := x.Fun.(*ast.SelectorExpr); ok && sel.Sel.Name == "MapKeys" && len(x.Args) == 0 {
				if tv, ok := info.Types[sel.X]; ok && tv.Type != nil && tv.Type.String() == "reflect.Value" {
					mid := newSite("mapkeys", x.Pos(), curFunc)
					sum.MapKeys++
					fc.insert(x.Pos(), fmt.Sprintf("verifsim.MapKeys(%d, ", mid))
					fc.replace(sel.X.End(), x.End(), ")")
				}
			}
		case *ast.SelectorExpr:
			if id, ok := x.X.(*ast.Ident); ok {
				if pn, ok := info.Uses[id].(*types.PkgName); ok {
					p := pn.Imported().Path()
					if p == "sync" || p == "sync/atomic" {
						sum.SyncUses = append(sum.SyncUses, p+"."+x.Sel.Name)
					}
				}
			}
		case *ast.ChanType:
			sum.ChanUses++
		}
		return true
	})

	// imports that lost their last use become blank imports
	uses := map[string]int{}
	ast.Inspect(fc.file, func(n ast.Node) bool {
		if id, ok := n.(*ast.Ident); ok {
			if pn, ok := info.Uses[id].(*types.PkgName); ok {
				uses[pn.Imported().Path()]++
			}
		}
		return true
	})
	for _, is := range fc.file.Imports {
		p, _ := strconv.Unquote(is.Path.Value)
		if removed[p] > 0 && uses[p]-removed[p] <= 0 && is.Name == nil {
			fc.insert(is.Path.Pos(), "_ ")
		}
	}
	if fc.needsI {
		nedit++
		fc.edits = append(fc.edits, edit{off: fc.off(fc.file.Name.End()), text: "; import verifsim \"" + simImport + "\"", seq: nedit})
	}
	_ = pkg
}

func writeGlobals(dir string, pkg *types.Package) {
	var names []string
	for _, n := range pkg.Scope().Names() {
		if v, ok := pkg.Scope().Lookup(n).(*types.Var); ok && n != "_" {
			names = append(names, v.Name())
		}
	}
	sort.Strings(names)
	sum.Globals = names
	var b strings.Builder
	b.WriteString("// Code generated by /verif/instrument; DO NOT EDIT.\n\npackage " + pkg.Name() + "\n\n")
	b.WriteString("// VerifGlobals returns a pointer to every package-level variable.\n")
	b.WriteString("func VerifGlobals() map[string]interface{} {\n\treturn map[string]interface{}{\n")
	for _, n := range names {
		fmt.Fprintf(&b, "\t\t%q: &%s,\n", n, n)
	}
	b.WriteString("\t}\n}\n\n")
	b.WriteString("// VerifSites maps a generated site id to kind, position and function.\n")
	b.WriteString("var VerifSites = []string{\n")
	for _, s := range sum.Sites {
		fmt.Fprintf(&b, "\t%q,\n", s.Kind+" "+s.Pos+" "+s.Func)
	}
	b.WriteString("}\n\n// VerifRaceNames maps the ids announced through verifsim.Acc to variable (or variable.field) names.\nvar VerifRaceNames = []string{\n")
	for _, n := range raceNames {
		fmt.Fprintf(&b, "\t%q,\n", n)
	}
	b.WriteString("}\n")
	if err := os.WriteFile(filepath.Join(dir, "verif_globals.go"), []byte(b.String()), 0o644); err != nil {
		fatal("%v", err)
	}
}
