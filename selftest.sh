#!/bin/bash
# selftest.sh determinism [N]   - for every claimed property: N run indexes (default 300) executed in
#                                  separate processes under GOMAXPROCS 1, 4 and 16, twice each; all
#                                  event-log hashes / step counts must agree.
# selftest.sh transparency       - the repository's own suite on the instrumented copy (simulator inactive).
# selftest.sh mutants [pattern]  - sensitivity: tools/run_mutants.sh
cd "$(dirname "$0")"
# (VERIF_REPO=<tree> runs the self tests against another tree, e.g. one that starts goroutines)
case "${1:-}" in
 determinism)
  N="${2:-300}"; rc=0
  for id in C13 C15 C16 C17 C18 C19; do
    ./check $id --shell bash -c '
      id='$id'; N='$N'; ok=1
      for gmp in 1 4 16; do for rep in a b; do
        GOMAXPROCS=$gmp VERIF_INSTR=$SCRATCH/instr.json $HARNESS selftest-determinism -prop $id -known /verif/known_findings.json -seed ${VERIF_SEED:-1} -from 0 -to $N > $SCRATCH/det.$gmp.$rep &
      done; done; wait
      for f in $SCRATCH/det.*; do cmp -s $SCRATCH/det.1.a $f || { ok=0; echo "  DIFFERS: $f"; diff $SCRATCH/det.1.a $f | head -3; }; done
      echo "$id determinism over $N runs x {GOMAXPROCS 1,4,16} x 2 processes: $( [ $ok = 1 ] && echo IDENTICAL || echo MISMATCH ) ($(wc -l < $SCRATCH/det.1.a) lines, $(md5sum < $SCRATCH/det.1.a | cut -c1-12))"
      [ $ok = 1 ]' || rc=1
  done
  exit $rc ;;
 transparency)
  ./check C13 --shell bash -c 'cd $SCRATCH/mxj && rsync -a --include "*_test.go" --include "*.xml" --include "*.json" --include "*.badxml" --include "*.badjson" --include "*/" --exclude "*" /repo/ . && export GOFLAGS=-mod=mod GOPROXY=off GOSUMDB=off GOTOOLCHAIN=local && go test -vet=off -count=1 . ./j2x ./x2j-wrapper' ;;
 mutants)
  tools/run_mutants.sh "${2:-}" ;;
 *) echo "usage: selftest.sh determinism [N] | transparency | mutants [pattern]"; exit 2 ;;
esac
