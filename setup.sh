#!/bin/bash
# Builds the instrumenter from files on disk (offline) and warms the Go build cache.
set -e
cd "$(dirname "$0")"
export GOFLAGS=-mod=mod GOPROXY=off GOSUMDB=off GOTOOLCHAIN=local
mkdir -p bin evidence replays
(cd instrument && go build -o ../bin/instrument .)
# warm the cache: one build of the harness against an instrumented copy
./check C13 --shell true >/dev/null || { echo "setup: harness build failed"; exit 1; }
echo "setup ok"
